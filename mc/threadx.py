"""THREADX: preemption-bounded exhaustive exploration of real threads under a baton scheduler.

N real threading.Thread objects each run one program (mc.world.World) on the real asynq library.
Exactly one thread runs at a time; a thread can lose the processor only inside Baton.point(), which
the harness calls at every callback into harness code (coarse points: every task step begin/end, flush
body, get_priority, context resume/pause, before/after flush event, item construction, deduplicated
call) and - in fine mode, pure build only - at every *line* of asynq's own code (sys.settrace).
The explorer enumerates every schedule with at most `bound` preemptions (iterative context bounding,
Musuvathi & Qadeer): default policy = keep running the current thread, when it finishes run the lowest
unfinished id; a choice != 0 at a point where the running thread is still enabled is a preemption.
"""
import sys
import threading
import time

from . import world as Wd
from . import explore as X


class Livelock(Exception):
    pass


class Baton(object):
    def __init__(self, n, prefix, horizon):
        self.n = n
        self.sems = [threading.Semaphore(0) for _ in range(n)]
        self.prefix = prefix
        self.pos = 0
        self.running = 0
        self.finished = [False] * n
        self.trace = []  # per point: (number of alternatives, choice taken, running thread was still enabled)
        self.horizon = horizon
        self.dead = False
        self.error = None

    def _order(self, tid, alive):
        others = [i for i in range(self.n) if i != tid and not self.finished[i]]
        return ([tid] if alive else []) + others

    def _choose(self, order, alive):
        i = self.pos
        self.pos += 1
        c = self.prefix[i] if i < len(self.prefix) else 0
        if c >= len(order):
            self.dead = True
            self.error = "replay divergence: choice %d of %d at point %d" % (c, len(order), i)
            c = 0
        self.trace.append((len(order), c, alive))
        if len(self.trace) > self.horizon:
            self.dead = True
            self.error = "horizon exceeded (%d points): livelock" % self.horizon
        return order[c]

    def point(self, tid):
        if self.dead:
            return
        order = self._order(tid, True)
        if len(order) == 1:
            return
        nxt = self._choose(order, True)
        if nxt != tid:
            self.running = nxt
            self.sems[nxt].release()
            self.sems[tid].acquire()

    def start(self, tid):
        if tid != 0:
            self.sems[tid].acquire()

    def finish(self, tid):
        self.finished[tid] = True
        order = self._order(tid, False)
        if not order:
            return
        if self.dead:
            nxt = order[0]
        elif len(order) == 1:
            nxt = order[0]
        else:
            nxt = self._choose(order, False)
        self.running = nxt
        self.sems[nxt].release()


def _tracer(baton, tidx, prefixes):
    """line-level scheduling points for frames of asynq's own code"""

    def local(frame, event, arg):
        if event == "line":
            baton.point(tidx)
        return local

    def glob(frame, event, arg):
        fn = frame.f_code.co_filename
        for p in prefixes:
            if isinstance(p, tuple):
                # (directory prefix, {basename: None | set of function names})
                d, sel = p
                if fn.startswith(d):
                    names = sel.get(fn[len(d):], False)
                    if names is None or (names and frame.f_code.co_name in names):
                        return local
            elif fn.startswith(p):
                return local
        return None

    return glob


def run_concurrent(progs, prefix, cfgs, fine=None, horizon=200000):
    """Runs progs[i] on thread i under schedule `prefix`.  Returns (results, trace, error)."""
    n = len(progs)
    baton = Baton(n, prefix, horizon)
    results = [None] * n
    worlds = [None] * n

    def body(i):
        baton.start(i)
        try:
            if fine:
                sys.settrace(_tracer(baton, i, fine))
            w = Wd.World(progs[i], threaded=True, baton=baton, tidx=i, **cfgs[i])
            worlds[i] = w
            w.run()
        except BaseException as e:  # harness failure inside a thread
            baton.error = "thread %d: %r" % (i, e)
        finally:
            if fine:
                sys.settrace(None)
            baton.finish(i)

    # all threads carry the SAME name: thread identity, not the name, must separate them
    threads = [threading.Thread(target=body, args=(i,), name="worker") for i in range(n)]
    for t in threads:
        t.start()
    for t in threads:
        t.join(60)
        if t.is_alive():
            baton.dead = True
            baton.error = "deadlock: thread %s did not finish" % t.name
            # let everybody run to completion free of the baton
            for s in baton.sems:
                s.release()
            for t2 in threads:
                t2.join(30)
            break
    for i, w in enumerate(worlds):
        if w is None:
            continue
        results[i] = summarize(w)
    for w in worlds:
        if w is not None:
            w.dispose()
    return results, baton.trace, baton.error


def summarize(w):
    return {
        "outcome": repr(getattr(w, "outcome", None)),
        "flushes": tuple(w.flushes),
        "decisions": tuple(w.decisions),
        "ctx": tuple(w.ctx_log),
        "probes": tuple(sorted(w.probes.items())),
        "steps": tuple(sorted(w.steps.items())),
        "viol": tuple(sorted(set(w.viol))),
        "dbatch": tuple(w.dbatch_log),
        "prof": w.prof,
        "dd_runs": tuple(sorted(w.dd_runs.items(), key=repr)),
    }


def explore_threads(progs, cfgs, bound, on_exec, fine=None, max_execs=None, horizon=200000, slice_=(0, 1)):
    """DFS over all schedules with <= bound preemptions.  on_exec(prefix, results, trace, error).
    slice_=(s, m): only the subtrees whose FIRST deviation happens at a point i with i % m == s (the
    deviation-free schedule itself belongs to slice 0) - lets several workers share one exploration."""
    stack = [()]
    n = 0
    capped = False
    while stack:
        prefix = stack.pop()
        results, trace, err = run_concurrent(progs, prefix, cfgs, fine=fine, horizon=horizon)
        n += 1
        if prefix or slice_[0] == 0:
            on_exec(prefix, results, trace, err)
        if err is not None:
            continue
        # preemptions used before each point
        cost = 0
        costs = []
        for (nalt, c, alive) in trace:
            costs.append(cost)
            if alive and c != 0:
                cost += 1
        for i in range(len(prefix), len(trace)):
            nalt, c, alive = trace[i]
            extra = 1 if alive else 0
            if costs[i] + extra > bound:
                continue
            if not prefix and i % slice_[1] != slice_[0]:
                continue
            base = tuple(t[1] for t in trace[:i])
            for alt in range(1, nalt):
                stack.append(base + (alt,))
        if max_execs is not None and n >= max_execs:
            capped = bool(stack)
            break
    return n, capped
