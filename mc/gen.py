"""Exhaustive program generation: the base family by size, and deviation variants.

Base family: a task body is a sequence of 0..3 yields; a yield is a bare leaf or a list of 2..3
leaves; a leaf is Item(a) | Item(b) | Const | Child(body).  Size = number of leaf occurrences.
Kinds a/b are symmetric (the explorer tries every flush order), so only programs whose first item
kind in traversal order is `a` are generated.

Deviations (one "deviation" = one edit below; all single edits of a program are enumerated, k edits =
k rounds, de-duplicated).  Every edit preserves the base skeleton (removing all edits gives back the
base program), so different base programs never produce the same deviated program.
"""
import itertools

IA = ("i", "a", "ok")
IB = ("i", "b", "ok")
K = ("k",)

_leaf_memo = {}
_yield_memo = {}
_body_memo = {}


def leaves(n):
    r = _leaf_memo.get(n)
    if r is None:
        r = []
        if n == 1:
            r += [IA, IB, K]
        if n >= 1:
            for b in bodies(n - 1):
                r.append(("c", ("t", b)))
        _leaf_memo[n] = r
    return r


def yields(n):
    r = _yield_memo.get(n)
    if r is None:
        r = [("y", lf) for lf in leaves(n)]
        for i in range(1, n):
            for a in leaves(i):
                for b in leaves(n - i):
                    r.append(("y", ("L", (a, b))))
        for i in range(1, n - 1):
            for j in range(1, n - i):
                k = n - i - j
                if k < 1:
                    continue
                for a in leaves(i):
                    for b in leaves(j):
                        for c in leaves(k):
                            r.append(("y", ("L", (a, b, c))))
        _yield_memo[n] = r
    return r


def bodies(n):
    r = _body_memo.get(n)
    if r is None:
        r = []
        if n == 0:
            r.append(())
        else:
            for y in yields(n):
                r.append((y,))
            for i in range(1, n):
                for a in yields(i):
                    for b in yields(n - i):
                        r.append((a, b))
            for i in range(1, n - 1):
                for j in range(1, n - i):
                    k = n - i - j
                    if k < 1:
                        continue
                    for a in yields(i):
                        for b in yields(j):
                            for c in yields(k):
                                r.append((a, b, c))
        _body_memo[n] = r
    return r


def _first_kind(x):
    """first item kind in traversal order of a term"""
    if isinstance(x, tuple):
        if len(x) == 3 and x[0] == "i":
            return x[1]
        for y in x:
            k = _first_kind(y)
            if k is not None:
                return k
    return None


def base_programs(n, symmetric=True):
    """all base programs of size exactly n (root body non-empty)"""
    for b in bodies(n):
        if symmetric and _first_kind(b) == "b":
            continue
        yield ("P", ("t", b), (), ())


def base_upto(n, symmetric=True):
    for i in range(1, n + 1):
        for p in base_programs(i, symmetric):
            yield p


# --------------------------------------------------------------------------------------------------
# deviations

SHARED_BODIES = (
    (("y", IA),),
    (("y", IA), ("y", IB)),
    (),
)
SYNC_BODIES = (
    (),
    (("y", IA),),
    (("y", IB), ("y", IA)),
)
MK_CHILD = ("c", ("t", (("y", IA),)))

ALL_MENU = (
    "leaf:n", "leaf:ef", "leaf:lzok", "leaf:lzraise", "leaf:nf", "leaf:sh", "leaf:re",
    "item:err", "item:unset", "item:c",
    "shape:T", "shape:D", "shape:nest", "shape:wrap1",
    "ins:raise", "ins:probe", "ins:res", "ins:mkitem", "ins:mkchild", "ins:sync", "ins:iv", "ins:yempty", "ins:ynone",
    "wrap:try", "wrap:A", "wrap:N", "wrap:S0", "wrap:S1", "wrap:P0", "wrap:Xp", "wrap:Xr", "wrap:Xq",
    "flush:raise", "flush:raiseB", "flush:new", "flush:setraise", "flush:nested", "flush:fcancel", "flush:fcancelraise", "flush:setfcancel", "flush:hooknested",
    "leaf:dd", "ins:ddirty", "item:errf", "ins:caught", "leaf:cw", "wrap:ovl", "leaf:bt", "ins:cancel", "leaf:dd1", "leaf:cu",
)
DD_ALTS = (("f", 1, "pos"), ("f", 1, "kw"), ("f", 1, "def"), ("f", 2, "pos"), ("g", 1, "pos"),
           ("mx", 1, "pos"), ("mx", 1, "mix"), ("my", 1, "pos"), ("s", 1, "pos"), ("sx", 1, "def"), ("h", 1, "pos"),
           ("p", 1, "pos"), ("q", 1, "pos"),
           ("k", 1, "o1"), ("k", 1, "o2"))  # k: f(key, **opts) called with different extra options  # p/q: two distinct functions with the same module and __name__


def variants(prog, menu):
    """all programs obtained from `prog` by exactly one deviation from `menu` (may repeat; caller
    de-duplicates)"""
    menu = frozenset(menu)
    _, root, shared, fm = prog
    ctx = {"shared": shared, "menu": menu}
    for nb, nshared in _task_variants(root, ctx, True):
        yield ("P", nb, nshared if nshared is not None else shared, fm)
    # edits inside shared bodies: wraps / inserts / item modes apply too
    for i, sb in enumerate(shared):
        for nb, nshared in _task_variants(sb, ctx, False):
            if nshared is not None:
                continue
            yield ("P", root, shared[:i] + (nb,) + shared[i + 1:], fm)
    # flush modes
    kinds = sorted(_kinds(prog))
    fmd = dict(fm)
    for m in ("raise", "raiseB", "new", "setraise", "nested", "fcancel", "fcancelraise", "setfcancel", "hooknested"):
        if "flush:" + m in menu:
            for k in kinds:
                if m in ("nested", "hooknested") and k != "a":
                    continue
                if k not in fmd:
                    yield ("P", root, shared, tuple(sorted(list(fm) + [(k, m)])))


def _kinds(x, acc=None):
    if acc is None:
        acc = set()
    if isinstance(x, tuple):
        if len(x) == 3 and x[0] == "i" and isinstance(x[1], str):
            acc.add(x[1])
        elif len(x) == 2 and x[0] == "iv":
            acc.add(x[1])
        else:
            for y in x:
                _kinds(y, acc)
    return acc


def _task_variants(task, ctx, allow_shared):
    for nstmts, nshared in _block_variants(task[1], ctx, allow_shared, [0]):
        yield ("t", nstmts), nshared


def _count_made(stmts):
    """number of leaves a block creates when run without failure (for valid 're' indices)"""
    n = 0
    for st in stmts:
        op = st[0]
        if op == "y":
            n += _count_struct(st[1])
        elif op == "mk":
            n += 1
        elif op == "try":
            n += _count_made(st[1])
        elif op == "with":
            n += _count_made(st[2])
        elif op == "ovl":
            n += _count_made(st[1]) + _count_made(st[2])
    return n


def _count_struct(s):
    if s[0] in ("T", "L"):
        return sum(_count_struct(x) for x in s[1])
    if s[0] == "D":
        return sum(_count_struct(x) for k, x in s[1])
    return 0 if s[0] == "re" else 1


def _block_variants(stmts, ctx, allow_shared, made_before):
    """yields (new stmts tuple, new shared or None).  made_before: [count of leaves made earlier in
    this task] for 're' leaves."""
    menu = ctx["menu"]
    n = len(stmts)
    # --- edits inside one statement
    made = made_before[0]
    for i, st in enumerate(stmts):
        op = st[0]
        if op == "y":
            for ns, nsh in _struct_variants(st[1], ctx, allow_shared, made, True):
                yield stmts[:i] + (("y", ns),) + stmts[i + 1:], nsh
            made += _count_struct(st[1])
        elif op == "try":
            for nb, nsh in _block_variants(st[1], ctx, allow_shared, [made]):
                yield stmts[:i] + (("try", nb, st[2]),) + stmts[i + 1:], nsh
            made_in = made + _count_made(st[1])
            for nb, nsh in _block_variants(st[2], ctx, allow_shared, [made_in]):
                yield stmts[:i] + (("try", st[1], nb),) + stmts[i + 1:], nsh
            made = made_in
        elif op == "with":
            for nb, nsh in _block_variants(st[2], ctx, allow_shared, [made]):
                yield stmts[:i] + (("with", st[1], nb),) + stmts[i + 1:], nsh
            made += _count_made(st[2])
        elif op == "ovl":
            for nb, nsh in _block_variants(st[1], ctx, allow_shared, [made]):
                yield stmts[:i] + (("ovl", nb, st[2]),) + stmts[i + 1:], nsh
            made += _count_made(st[1])
            for nb, nsh in _block_variants(st[2], ctx, allow_shared, [made]):
                yield stmts[:i] + (("ovl", st[1], nb),) + stmts[i + 1:], nsh
            made += _count_made(st[2])
        elif op == "sync":
            for nt, nsh in _task_variants(st[1], ctx, allow_shared):
                yield stmts[:i] + (("sync", nt, st[2]),) + stmts[i + 1:], nsh
        elif op == "mk":
            made += 1
    # --- insertions at every gap
    ins = []
    if "ins:raise" in menu:
        ins.append(("raise",))
    if "ins:probe" in menu:
        ins.append(("probe",))
    if "ins:res" in menu:
        ins.append(("res",))
    if "ins:mkitem" in menu:
        ins.append(("mk", IA))
    if "ins:mkchild" in menu:
        ins.append(("mk", MK_CHILD))
    if "ins:sync" in menu:
        for b in SYNC_BODIES:
            ins.append(("sync", ("t", b), "call"))
        ins.append(("sync", ("t", SYNC_BODIES[1]), "av"))
    if "ins:iv" in menu:
        ins.append(("iv", "a"))
        ins.append(("iv", "b"))
    if "ins:yempty" in menu:
        ins.append(("y", ("L", ())))
        ins.append(("y", ("T", ())))
        ins.append(("y", ("D", ())))
    if "ins:ynone" in menu:
        ins.append(("y", ("n",)))
    if "ins:cancel" in menu:
        ins.append(("cancel", "a"))
        ins.append(("cancel", "b"))
    if "ins:caught" in menu:
        ins.append(("try", (("y", ("ef",)),), ()))
    if "ins:ddirty" in menu:
        ins.append(("ddirty", "f", 1))
        ins.append(("ddirty", "mx", 1))
    for g in range(n + 1):
        for s in ins:
            yield stmts[:g] + (s,) + stmts[g:], None
    # --- wraps of every non-empty statement range
    wraps = []
    if "wrap:try" in menu:
        wraps.append(lambda body: ("try", body, ()))
        wraps.append(lambda body: ("try", body, (("y", IA),)))
    for ck in ("A", "N", "S0", "S1", "P0", "Xp", "Xr", "Xq"):
        if "wrap:" + ck in menu:
            wraps.append(lambda body, ck=ck: ("with", ck, body))
    if "wrap:ovl" in menu:
        for i in range(n):
            for j in range(i + 1, n + 1):
                for m in range(i + 1, j + 1):
                    yield stmts[:i] + (("ovl", stmts[i:m], stmts[m:j]),) + stmts[j:], None
    if wraps:
        for i in range(n):
            for j in range(i + 1, n + 1):
                for wfn in wraps:
                    yield stmts[:i] + (wfn(stmts[i:j]),) + stmts[j:], None


def _struct_variants(s, ctx, allow_shared, made, top):
    menu = ctx["menu"]
    op = s[0]
    if op in ("T", "L"):
        items = s[1]
        m = made
        for i, x in enumerate(items):
            for nx, nsh in _struct_variants(x, ctx, allow_shared, m, False):
                yield (op, items[:i] + (nx,) + items[i + 1:]), nsh
            m += _count_struct(x)
        if op == "L" and "shape:T" in menu:
            yield ("T", items), None
        if op == "L" and "shape:D" in menu and items:
            yield ("D", tuple((("x", "y", "z", "u")[i], x) for i, x in enumerate(items))), None
        if "shape:nest" in menu and len(items) >= 2:
            yield (op, (("L", items[:1]),) + items[1:]), None
            yield (op, items[:1] + (("T", items[1:]),)), None
            yield (op, items[:-1] + (("D", (("x", items[-1]),)),)), None
        return
    if op == "D":
        items = s[1]
        m = made
        for i, (k, x) in enumerate(items):
            for nx, nsh in _struct_variants(x, ctx, allow_shared, m, False):
                yield ("D", items[:i] + ((k, nx),) + items[i + 1:]), nsh
            m += _count_struct(x)
        return
    # leaves
    if top and "shape:wrap1" in menu and op != "re":
        yield ("L", (s,)), None
        yield ("T", (s,)), None
        yield ("D", (("x", s),)), None
    if op == "k":
        if "leaf:n" in menu:
            yield ("n",), None
        if "leaf:ef" in menu:
            yield ("ef",), None
        if "leaf:lzok" in menu:
            yield ("lz", "ok"), None
        if "leaf:lzraise" in menu:
            yield ("lz", "raise"), None
        if "leaf:nf" in menu:
            yield ("nf",), None
        if "leaf:bt" in menu:
            yield ("bt", "a"), None
        if "leaf:re" in menu:
            for j in range(made):
                yield ("re", j), None
        if "leaf:dd" in menu:
            for a in DD_ALTS:
                yield ("dd",) + a, None
        elif "leaf:dd1" in menu:
            yield ("dd",) + DD_ALTS[0], None  # one fixed call: lets larger programs be reached
        if "leaf:sh" in menu and allow_shared:
            if ctx["shared"]:
                yield ("sh", 0), None
            else:
                for b in SHARED_BODIES:
                    yield ("sh", 0), (("t", b),)
    elif op == "i":
        if s[2] == "ok":
            if "item:err" in menu:
                yield ("i", s[1], "err"), None
            if "item:unset" in menu:
                yield ("i", s[1], "unset"), None
            if "item:errf" in menu:
                yield ("i", s[1], "errf"), None
        if s[1] == "b" and "item:c" in menu:
            yield ("i", "c", s[2]), None
    elif op == "c":
        for nt, nsh in _task_variants(s[1], ctx, allow_shared):
            yield ("c", nt), nsh
        if "leaf:cw" in menu:
            yield ("cw", s[1]), None
        if "leaf:cu" in menu:
            yield ("cu", s[1]), None
    elif op in ("cw", "cu"):
        for nt, nsh in _task_variants(s[1], ctx, allow_shared):
            yield (op, nt), nsh


def deviated(base, menu, k):
    """yields (program, ndev) for all programs within k deviations of `base` (including base, ndev=0),
    each once, fewest deviations first"""
    seen = {base}
    yield base, 0
    level = [base]
    for d in range(1, k + 1):
        nxt = []
        for p in level:
            for v in variants(p, menu):
                if v not in seen:
                    seen.add(v)
                    nxt.append(v)
                    yield v, d
        level = nxt


if __name__ == "__main__":
    import time
    for n in range(1, 7):
        t0 = time.time()
        c = sum(1 for _ in base_programs(n))
        print(n, c, "%.2fs" % (time.time() - t0))
    import collections
    for n in (2, 3):
        tot = collections.Counter()
        for b in base_programs(n):
            for p, d in deviated(b, ALL_MENU, 2 if n < 3 else 1):
                tot[d] += 1
        print(n, dict(tot))


# --------------------------------------------------------------------------------------------------
# shape family: ONE task yielding ONE structure; every structure of a top-level container (tuple /
# list / dict, arity 0..top) whose elements are leaves or containers (arity 0..inner) of leaves.
# This is where unwrap()'s special-cased tuple lengths and extract_futures()'s traversal orders live,
# and where "the first failing future in structure order wins" is decided with several failures.

SHAPE_LEAVES = {
    "quick": (K, ("ef",), IA, ("i", "a", "err")),
    "thorough": (K, ("ef",), IA, ("i", "b", "err"), ("n",), ("nf",)),
}
_KEYS = ("x", "y", "z")


def _containers(elems, max_arity):
    for kind in ("T", "L", "D"):
        for ar in range(0, max_arity + 1):
            for combo in itertools.product(elems, repeat=ar):
                if kind == "D":
                    yield ("D", tuple((_KEYS[i], c) for i, c in enumerate(combo)))
                else:
                    yield (kind, combo)


def shape_programs(tier, leaves=None):
    leaves = leaves or SHAPE_LEAVES[tier]
    inner = list(_containers(leaves, 2))
    elems = list(leaves) + inner
    for lf in leaves:
        yield ("P", ("t", (("y", lf),)), (), ())
    for s in _containers(elems, 3):
        yield ("P", ("t", (("y", s),)), (), ())
