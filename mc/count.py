"""counts programs per ladder rung of a check: python -m mc.count C06 quick"""
import importlib, sys, time
from . import gen
m = importlib.import_module("mc.checks.%s" % sys.argv[1].lower())
tier = sys.argv[2] if len(sys.argv) > 2 else "quick"
for n, k, convs in m.LADDER[tier]:
    t0 = time.time()
    tot = 0
    for size in range(1, n + 1):
        c = 0
        for b in gen.base_programs(size):
            for p, d in (gen.deviated(b, m.MENU, k) if k else [(b, 0)]):
                c += 1
            if time.time() - t0 > 60:
                break
        print("  n=%d k=%d size=%d programs=%d" % (n, k, size, c), flush=True)
        tot += c
    print("rung n<=%d k<=%d: %d programs (%.1fs gen)" % (n, k, tot, time.time() - t0), flush=True)
