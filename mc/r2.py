"""R2: the maximal-batching reference machine.

An independent, boring implementation of the *specified* scheduling discipline over the same
program language (own futures, own coroutine driver, no asynq): run every task that can run until
every uncompleted task reachable from the wait target is blocked, directly or through other tasks,
on an unflushed batch item; then flush ONE kind (the kind the implementation chose - R2 is driven by
the implementation's decisions, and checks they were among its own alternatives); repeat.

lockstep(prog, execresult) replays the implementation's decision sequence on R2 and reports every
disagreement: outcome, per-flush item sets, per-decision menus, number of flushes, and tasks that
must die inside a NonAsyncContext.
"""
from .prog import is_base_tok


class R2Err(Exception):
    def __init__(self, t):
        self.t = t


class R2BaseErr(BaseException):
    def __init__(self, t):
        self.t = t


class R2Result(BaseException):
    def __init__(self, v):
        self.v = v


class Diverged(Exception):
    pass


class RFut(object):
    __slots__ = ("done", "val", "err")


class RConst(RFut):
    def __init__(self, val=None, err=None):
        self.done = True
        self.val = val
        self.err = err


class RItem(RFut):
    __slots__ = ("kind", "lid", "mode")

    def __init__(self, kind, lid, mode):
        self.done = False
        self.val = None
        self.err = None
        self.kind = kind
        self.lid = lid
        self.mode = mode


class RTask(RFut):
    __slots__ = ("code", "gen", "started", "waiting", "struct", "ctx", "steps")

    def __init__(self, code):
        self.done = False
        self.val = None
        self.err = None
        self.code = code
        self.gen = None
        self.started = False
        self.waiting = None
        self.struct = None
        self.ctx = []
        self.steps = 0


NONFUT = object()


def _raise(t):
    if is_base_tok(t):
        raise R2BaseErr(t)
    raise R2Err(t)


class Machine(object):
    def __init__(self, prog, choices):
        self.prog = prog
        self.choices = choices
        self.ci = 0
        self.pending = {}
        self.flog = []
        self.menus = []
        self.shared = {}
        self.waitstack = []
        self.started = set()
        self.killed = []
        self.tasks = {}

    # ------------------------------------------------------------------ interpreter (generators)
    def body(self, T):
        tc = T.code
        rec, made = [], []
        yield from self.block(T, tc.stmts, rec, made)
        return ("t", tc.tid, tuple(rec))

    def block(self, T, stmts, rec, made):
        tc = T.code
        for st in stmts:
            op = st[0]
            if op == "y":
                leaves = []
                struct = self.build(T, st[2], made, leaves)
                val = yield (struct, leaves)
                rec.append(val)
            elif op == "try":
                try:
                    yield from self.block(T, st[2], rec, made)
                except R2Err as e:
                    rec.append(("caught", e.t))
                    yield from self.block(T, st[3], rec, made)
            elif op == "ovl":
                yield from self.block(T, st[2], rec, made)
                yield from self.block(T, st[3], rec, made)
            elif op == "with":
                T.ctx.append(st[2])
                try:
                    yield from self.block(T, st[3], rec, made)
                finally:
                    T.ctx.pop()
            elif op == "sync":
                callee = RTask(st[2])
                self.tasks[st[2].tid] = callee
                self.run(callee)
                if callee.err is not None:
                    _raise(callee.err)
                rec.append(callee.val)
            elif op == "raise":
                raise R2Err(("raise", tc.tid, st[1]))
            elif op == "probe":
                pass
            elif op == "res":
                raise R2Result(("t", tc.tid, tuple(rec)))
            elif op == "cancel":
                for it in self.pending.pop(st[2], []):
                    it.done = True
                    it.err = ("exc", "BatchCancelledError")
            elif op == "mk":
                self.make_leaf(T, st[2], made)
            elif op == "iv":
                it = RItem(st[2], st[3], "ok")
                self.pending.setdefault(st[2], []).append(it)
                self.flush(st[2], False)
                if it.err is not None:
                    _raise(it.err)
                rec.append(it.val)
            else:
                raise ValueError(op)

    def make_leaf(self, T, lf, made):
        op = lf[0]
        if op == "c":
            r = RTask(lf[2])
            self.tasks[lf[2].tid] = r
        elif op == "i":
            r = RItem(lf[2], lf[1], lf[3])
            self.pending.setdefault(lf[2], []).append(r)
        elif op == "k":
            r = RConst(("k", lf[1]))
        elif op == "n":
            r = None
        elif op == "ef":
            r = RConst(None, ("ef", lf[1]))
        elif op == "nf":
            r = NONFUT
        elif op == "lz":
            # a lazily computed future is computed inline when the scheduler reaches it, i.e. before
            # the yielding task can be resumed: for the machine it is complete at once
            r = RConst(("z", lf[1])) if lf[2] == "ok" else RConst(None, ("lz", lf[1]))
        elif op == "sh":
            idx = lf[2]
            r = self.shared.get(idx)
            if r is None:
                r = self.shared[idx] = RTask(self.prog.shared[idx])
                self.tasks[self.prog.shared[idx].tid] = r
        elif op == "re":
            return made[lf[2] % len(made)] if made else None
        else:
            raise ValueError(op)
        made.append(r)
        return r

    def build(self, T, s, made, leaves):
        op = s[0]
        if op == "T":
            return ("T", [self.build(T, x, made, leaves) for x in s[1]])
        if op == "L":
            return ("L", [self.build(T, x, made, leaves) for x in s[1]])
        if op == "D":
            return ("D", [(k, self.build(T, x, made, leaves)) for k, x in s[1]])
        r = self.make_leaf(T, s, made)
        leaves.append(r)
        return ("leaf", r)

    # ------------------------------------------------------------------ driver
    def subst(self, s):
        op = s[0]
        if op == "T":
            return tuple([self.subst(x) for x in s[1]])
        if op == "L":
            return [self.subst(x) for x in s[1]]
        if op == "D":
            return {k: self.subst(x) for k, x in s[1]}
        r = s[1]
        return None if r is None else r.val

    def step(self, T):
        T.steps += 1
        try:
            if not T.started:
                T.started = True
                self.started.add(T.code.tid)
                T.gen = self.body(T)
                out = next(T.gen)
            else:
                err = None
                for lf in T.waiting:
                    if lf is NONFUT:
                        err = ("exc", "TypeError")
                        break
                    if lf is not None and lf.err is not None:
                        err = lf.err
                        break
                struct = T.struct
                T.waiting = None
                T.struct = None
                if err is not None:
                    if is_base_tok(err):
                        out = T.gen.throw(R2BaseErr(err))
                    else:
                        out = T.gen.throw(R2Err(err))
                else:
                    out = T.gen.send(self.subst(struct))
        except StopIteration as e:
            T.done = True
            T.val = e.value
            return
        except R2Result as e:
            T.done = True
            T.val = e.v
            return
        except (R2Err, R2BaseErr) as e:
            T.done = True
            T.err = e.t
            return
        T.struct, T.waiting = out

    def reachable(self, root):
        """uncompleted tasks reachable from root through pending yields, children before parents"""
        order = []
        seen = set()

        def visit(T):
            if id(T) in seen:
                return
            seen.add(id(T))
            if T.waiting:
                for lf in T.waiting:
                    if isinstance(lf, RTask) and not lf.done:
                        visit(lf)
            order.append(T)

        visit(root)
        return order

    def runnable(self, T):
        if not T.started:
            return True
        for lf in T.waiting:
            if lf is not None and lf is not NONFUT and not lf.done:
                return False
        return True

    def advance(self, root):
        while not root.done:
            progressed = False
            order = self.reachable(root)
            for T in order:
                if not T.done and self.runnable(T):
                    self.step(T)
                    progressed = True
                    break
            if progressed:
                continue
            # quiescent.  A task suspended here inside a NonAsyncContext must die (deepest first).
            for T in order:
                if not T.done and "N" in T.ctx:
                    T.done = True
                    T.err = ("exc", "AssertionError")
                    self.killed.append(T.code.tid)
                    g = T.gen
                    T.gen = None
                    try:
                        g.close()
                    except BaseException:
                        pass
                    progressed = True
                    break
            if not progressed:
                return

    def menu(self):
        kinds = set()
        for root in self.waitstack:
            for T in self.reachable(root):
                if T.done or not T.waiting:
                    continue
                for lf in T.waiting:
                    if isinstance(lf, RItem) and not lf.done:
                        kinds.add(lf.kind)
        return kinds

    def run(self, root):
        self.waitstack.append(root)
        try:
            while not root.done:
                self.advance(root)
                if root.done:
                    break
                m = self.menu()
                if self.ci >= len(self.choices):
                    raise Diverged("reference needs flush #%d (pending awaited kinds %s) but the implementation made only %d scheduler flushes"
                                   % (self.ci, sorted(m), len(self.choices)))
                k = self.choices[self.ci]
                self.menus.append(tuple(sorted(m)))
                self.ci += 1
                if not self.pending.get(k):
                    raise Diverged("implementation flushed kind %s at decision %d but the reference has no pending item of that kind (menu %s)"
                                   % (k, self.ci - 1, sorted(m)))
                self.flush(k, True)
        finally:
            self.waitstack.pop()

    def flush(self, kind, via_sched):
        items = self.pending.pop(kind, [])
        mode = self.prog.flushmodes.get(kind, "ok")
        if mode == "hooknested" and via_sched:
            # a before-flush subscriber synchronously calls a function that waits for an item of another kind (and
            # swallows its failure): nested scheduler flushes happen before this batch's flush body is entered
            self.nested_depth = getattr(self, "nested_depth", 0) + 1
            if self.nested_depth <= 2:
                other = "b" if kind != "b" else "a"
                it = RItem(other, -1 - len(self.flog), "ok")
                self.pending.setdefault(other, []).append(it)
                while not it.done:
                    if self.ci >= len(self.choices):
                        raise Diverged("reference needs a nested flush #%d (before-flush hook) but the implementation made only %d scheduler flushes"
                                       % (self.ci, len(self.choices)))
                    k = self.choices[self.ci]
                    self.menus.append(None)
                    self.ci += 1
                    if not self.pending.get(k):
                        raise Diverged("implementation flushed kind %s at nested decision %d (before-flush hook) but the reference has no pending item of that kind"
                                       % (k, self.ci - 1))
                    self.flush(k, True)
            self.nested_depth -= 1
        self.flog.append((kind, tuple(sorted(it.lid for it in items)), via_sched))
        if mode == "nested":
            self.nested_depth = getattr(self, "nested_depth", 0) + 1
            if self.nested_depth <= 2:
                other = "b" if kind != "b" else "a"
                it = RItem(other, -1 - len(self.flog), "ok")
                self.pending.setdefault(other, []).append(it)
                while not it.done:
                    if self.ci >= len(self.choices):
                        raise Diverged("reference needs a nested flush #%d but the implementation made only %d scheduler flushes"
                                       % (self.ci, len(self.choices)))
                    k = self.choices[self.ci]
                    self.menus.append(None)
                    self.ci += 1
                    if not self.pending.get(k):
                        raise Diverged("implementation flushed kind %s at nested decision %d but the reference has no pending item of that kind"
                                       % (k, self.ci - 1))
                    self.flush(k, True)
                if it.err is not None:
                    # the nested call failed inside the flush body: the body raises before setting anything
                    self.nested_depth -= 1
                    for x in items:
                        x.done = True
                        x.err = it.err
                    return
            self.nested_depth -= 1
        if mode == "new":
            self.pending.setdefault(kind, []).append(RItem(kind, -1 - len(self.flog), "ok"))
        for it in items:
            it.done = True
            if mode == "raise":
                it.err = ("flush", kind)
            elif mode == "raiseB":
                it.err = ("flushB", kind)
            elif mode in ("fcancel", "fcancelraise") or (mode == "setfcancel" and it.mode == "unset"):
                it.err = ("flushcancel", kind)
            elif it.mode == "ok":
                it.val = ("i", it.lid)
            elif it.mode == "err":
                it.err = ("item", it.lid)
            elif it.mode == "errf":
                it.err = ("itemf", it.lid)
            elif mode == "setraise":
                it.err = ("flushlate", kind)
            else:
                it.err = ("exc", "AssertionError")


SKIP = frozenset(["cancel", "bt", "with:Xp", "with:Xr", "with:Xq", "dd", "ddirty", "dbi"])


def lockstep(prog, r, conv_parent=False):
    """returns list of (category, message)"""
    if prog.features & SKIP:
        return []
    choices = [d[1] for d in r.decisions]
    m = Machine(prog, choices)
    root = RTask(prog.root)
    m.tasks[prog.root.tid] = root
    out = []
    try:
        m.run(root)
    except Diverged as e:
        if prog.features & {"sync", "iv", "bt"}:
            return out
        out.append(("r2-diverge", str(e)))
        return out
    except RecursionError:
        return [("harness", "R2 recursion")]
    exp = ("ok", root.val) if root.err is None else ("err", root.err)
    if exp != r.outcome and not ("sync" in prog.features and "with:N" in prog.features):
        out.append(("r2-outcome", "outcome %r, maximal-batching reference gives %r (tasks killed in NonAsyncContext: %s)"
                    % (r.outcome, exp, m.killed)))
    impl_log = [(k, tuple(sorted(l)), v) for (k, l, v) in r.flushes]
    if impl_log != m.flog:
        n = min(len(impl_log), len(m.flog))
        i = 0
        while i < n and impl_log[i] == m.flog[i]:
            i += 1
        a = impl_log[i] if i < len(impl_log) else None
        b = m.flog[i] if i < len(m.flog) else None
        if a is None or b is None:
            out.append(("r2-flush-count", "implementation made %d flushes, reference %d; first difference at #%d: impl %r ref %r"
                        % (len(impl_log), len(m.flog), i, a, b)))
        else:
            out.append(("r2-batch", "flush #%d: implementation flushed %r, reference (all requests issuable before it) %r" % (i, a, b)))
    if m.ci != len(choices):
        out.append(("r2-flush-count", "implementation made %d scheduler flushes, reference needed %d" % (len(choices), m.ci)))
    # with synchronous re-entry the inner wait legitimately sees only the batches scheduled so far;
    # with tasks killed inside a NonAsyncContext a scheduled batch may be awaited by nobody any more
    strict = not (prog.features & {"with:N"})
    for i, (mine, d) in enumerate(zip(m.menus, r.decisions)):
        theirs = d[0]
        if mine is None or prog.features & {"flush:nested", "flush:hooknested"}:
            continue
        if prog.features & {"sync", "iv"}:
            # synchronous re-entry (nested wait or out-of-band item.value()): outside C04's premise
            break
        if not set(mine) <= set(theirs) or (strict and set(mine) != set(theirs)):
            out.append(("r2-menu", "decision %d: implementation chose among %s, reference has awaited pending kinds %s" % (i, theirs, mine)))
            break
    if prog.features & {"sync", "iv", "bt"}:
        # with synchronous re-entry the content of an inner / out-of-band flush depends on the order in which the
        # depth-first driver reaches siblings (e.g. dict values start in reverse); the flush log is then not specified
        out = [o for o in out if o[0] in ("r2-outcome",)]
    if not r.unfinished and m.started != r.started:
        out.append(("r2-started", "tasks started %s, reference %s" % (sorted(r.started), sorted(m.started))))
    return out
