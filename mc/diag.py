"""Helpers shared by the C17 (async generators) and C18 (diagnostics) checks - worker side.

Import only after mc.build.activate() (imports asynq).
"""
import gc
import io
import sys
import warnings

import asynq
import asynq._debug as _dbg
import asynq.batching as _batching
import asynq.debug as _adebug
import asynq.profiler as _profiler
import asynq.scheduler as _sched
import asynq.tools as _tools


class Sink(io.TextIOBase):
    """diagnostic stream: counted, discarded"""

    def __init__(self):
        self.n = 0

    def write(self, s):
        self.n += len(s)
        return len(s)

    def flush(self):
        pass


SINK = Sink()

# every option the diagnostics code reads; values of the pristine import
_OPTION_NAMES = [n for n in dir(_dbg.options) if n.isupper() and not callable(getattr(_dbg.options, n))]
_DEFAULTS = {n: getattr(_dbg.options, n) for n in _OPTION_NAMES}
_DEBUG_FLAGS = {
    "_use_original_exc_handler": _adebug._use_original_exc_handler,
    "_should_filter_traceback": _adebug._should_filter_traceback,
    "_use_syntax_highlighting": _adebug._use_syntax_highlighting,
}


def capture_streams():
    sys.stdout = SINK
    sys.stderr = SINK
    _adebug.stdout = SINK
    _adebug.stderr = SINK
    try:
        _sched.stdout = SINK
        _sched.stderr = SINK
    except Exception:
        pass


def worker_init(env):
    capture_streams()
    warnings.simplefilter("ignore")
    # asynq installs its exception hook on import; a worker never wants it
    sys.excepthook = sys.__excepthook__
    gc.collect()
    gc.freeze()


def reset_asynq():
    """process-wide asynq state -> pristine (start of every case)"""
    for n, v in _DEFAULTS.items():
        setattr(_dbg.options, n, v)
    for n, v in _DEBUG_FLAGS.items():
        setattr(_adebug, n, v)
    _sched.reset()
    _profiler.reset()
    _tools.DeduplicateDecorator.tasks.clear()
    _batching._debug_batch_state.batches.clear()


def new_result():
    return {"evals": 0, "states": 0, "transitions": 0, "nontrivial": 0, "violations": [], "samples": [],
            "counters": {}, "sets": {}}


def bump(res, name, n=1):
    c = res["counters"]
    c[name] = c.get(name, 0) + n


def chunked(it, n):
    buf = []
    for x in it:
        buf.append(x)
        if len(buf) >= n:
            yield buf
            buf = []
    if buf:
        yield buf


# ==================================================================================================
# C18 (a)/(b): generated chains of @asynq tasks, one function (own name, own lines) per level and variant

import linecache

CHAIN_FILE = "<c18-generated-chain>"


class ChainError(Exception):
    pass


class OtherError(Exception):
    pass


class Handoff(object):
    """wraps task(s) that were created but deliberately NOT awaited by their creator, so that they can be returned /
    passed on without tripping asynq.result()'s "forgot to yield" assertion"""

    __slots__ = ("task",)

    def __init__(self, task):
        self.task = task


def resolve_handoffs(r):
    """generator helper (`r = yield from RESOLVE(r)`): awaits every handed-off task found in r, repeatedly"""
    while True:
        pend = []
        for x in (r if r.__class__ in (list, tuple) else [r]):
            if x.__class__ is Handoff:
                pend.extend(x.task if x.task.__class__ is list else [x.task])
        if not pend:
            return r
        r = yield pend


LINKS = "awmu"
# link of a non-leaf level k to level k+1 in the hand-off chains:
#   a  level k creates the child and awaits it itself
#   w  level k creates the child and hands it to a helper task Wk (created by level k) which awaits it; level k stays
#      suspended on Wk               -> the awaiting chain differs from the creating chain, creator still suspended
#   m  level k awaits a maker task Mk which creates the child and returns it un-awaited; level k then awaits the child
#                                    -> the child's creator (Mk) has finished when the child runs
#   u  level k creates the child and returns it un-awaited to whoever awaits level k (parent level, its helper Wk-1 or
#      the harness), which awaits it  -> the child's creator (level k) has finished when the child runs


def handoff_positions(blk, link):
    """number of statement positions of a hand-off level function"""
    return 1 + (1 if blk == "b" else 0) + {"a": 4, "w": 4, "m": 5, "u": 2}[link]


def hfn_name(k, blk, link, role):
    return "H%d_%s_%s_%s" % (k, blk, link, role)


def chain_positions(leaf, blk):
    """number of statement positions of a level function: s0 [blk] [await] post return"""
    return 3 + (1 if blk == "b" else 0) + (0 if leaf else 1)


def fn_name(k, leaf, blk, role):
    return "L%d%s_%s_%s" % (k, "l" if leaf else "n", blk, role)


class ChainModule(object):
    """source of every level function up to `depth`, compiled into a linecache-registered pseudo file.

    level k, non-leaf:   x = k ; [y0 = yield DebugBatchItem] ; y = yield CHAIN[k+1].asynq() ; z = (x, y) ; return z
    level k, leaf:       x = k ; [y0 = yield DebugBatchItem] ; z = (x, None) ; return z
    roles: p (plain)  rJ (raise ChainError before statement J)  qJ (record format_asynq_stack() before statement J)
           cr / cb / co (non-leaf: the await is wrapped in try/except ChainError: re-raise / await a batch item then
           re-raise / raise OtherError)
    """

    def __init__(self, depth):
        self.depth = depth
        self.lines = []
        self.info = {}
        for k in range(depth):
            for leaf in (False, True):
                for blk in ("d", "b"):
                    roles = ["p"]
                    n = chain_positions(leaf, blk)
                    roles += ["r%d" % j for j in range(n)] + ["q%d" % j for j in range(n)]
                    if not leaf:
                        roles += ["cr", "cb", "co"]
                    for role in roles:
                        self._emit(k, leaf, blk, role)
        for k in range(depth - 1):
            self._emit_helpers(k)
            for blk in ("d", "b"):
                for link in LINKS:
                    n = handoff_positions(blk, link)
                    for role in ["p"] + ["q%d" % j for j in range(n)]:
                        self._emit_handoff(k, blk, link, role)
        self._emit_readers()
        self._emit_tree()
        src = "".join(self.lines)
        linecache.cache[CHAIN_FILE] = (len(src), None, list(self.lines), CHAIN_FILE)
        from asynq import asynq as asynq_deco
        self.ns = {
            "__name__": "c18_generated_chain",
            "asynq": asynq_deco,
            "DebugBatchItem": _batching.DebugBatchItem,
            "ChainError": ChainError,
            "OtherError": OtherError,
            "CHAIN": [],
            "STACKS": [],
            "TBLK": {},
            "TLINK": {},
            "HPROBE": None,
            "Handoff": Handoff,
            "RESOLVE": resolve_handoffs,
            "format_asynq_stack": _adebug.format_asynq_stack,
        }
        exec(compile(src, CHAIN_FILE, "exec"), self.ns)

    def _add(self, text):
        self.lines.append(text + "\n")
        return len(self.lines)  # 1-based line number of the line just added

    def _emit(self, k, leaf, blk, role):
        name = fn_name(k, leaf, blk, role)
        info = {"level": k, "leaf": leaf, "blk": blk, "role": role, "raise_line": None, "other_line": None,
                "await_line": None, "probe_line": None}
        stmts = [("s0", ["x = %d" % k])]
        if blk == "b":
            stmts.append(("blk", ["y0 = yield DebugBatchItem('c18', %d)" % k]))
        if not leaf:
            if role in ("cr", "cb", "co"):
                aw = ["try:", "    y = yield CHAIN[%d].asynq()" % (k + 1), "except ChainError:"]
                if role == "cr":
                    aw.append("    raise")
                elif role == "cb":
                    aw += ["    y1 = yield DebugBatchItem('c18h', %d)" % k, "    raise"]
                else:
                    aw.append("    raise OtherError(%d)" % k)
                stmts.append(("aw", aw))
            else:
                stmts.append(("aw", ["y = yield CHAIN[%d].asynq()" % (k + 1)]))
            stmts.append(("post", ["z = (x, y)"]))
        else:
            stmts.append(("post", ["z = (x, None)"]))
        stmts.append(("ret", ["return z"]))
        ins = int(role[1:]) if role[0] in "rq" else None
        self._add("@asynq()")
        self._add("def %s():" % name)
        for j, (tag, body) in enumerate(stmts):
            if ins == j:
                if role[0] == "r":
                    info["raise_line"] = self._add("    raise ChainError(%d)" % k)
                else:
                    info["probe_line"] = self._add("    STACKS.append(format_asynq_stack())")
            for ln in body:
                no = self._add("    " + ln)
                if "CHAIN[" in ln:
                    info["await_line"] = no
                if "OtherError" in ln:
                    info["other_line"] = no
        self._add("")
        self._add("")
        self.info[name] = info

    # caller-side functions through which the outcome of a chain is delivered (not task levels, but generated code, so
    # that frames of an EARLIER delivery that leak into a later one are visible to the frame oracle)
    READERS = ["RD_A", "RD_B", "RD_CALL", "RD_F"]
    DELIVERIES = ["RD_A", "RD_A", "RD_B", "RD_CALL", "RD_A", "RD_F"]

    def _emit_readers(self):
        for name, body in (("RD_A(t)", "return t.value()"), ("RD_B(t)", "return t.value()"),
                           ("RD_CALL(t)", "return t()"), ("RD_F(t)", "return CHAIN[0]()")):
            self._add("def %s:" % name)
            self._add("    " + body)
            self._add("")
            self._add("")

    def run_deliveries(self, names):
        """the root task is created once; its outcome is read through RD_A (1st delivery), again through RD_A, through
        another caller RD_B, through task() and once more through RD_A; finally the root function is called again
        synchronously (RD_F, a fresh computation).  -> [(reader, value, exception, generated-code frames)]"""
        reset_asynq()
        ns = self.ns
        ns["CHAIN"][:] = [ns[n] for n in names]
        ns["HPROBE"] = None
        del ns["STACKS"][:]
        task = ns[names[0]].asynq()
        out = []
        for rd in self.DELIVERIES:
            val = exc = None
            frames = []
            try:
                val = ns[rd](task)
            except BaseException as e:  # noqa
                if isinstance(e, (KeyboardInterrupt, SystemExit, MemoryError)):
                    raise
                exc = e
                tb = e.__traceback__
                while tb is not None:
                    co = tb.tb_frame.f_code
                    if co.co_filename == CHAIN_FILE:
                        frames.append((co.co_name, tb.tb_lineno))
                    tb = tb.tb_next
                tb = None
            out.append((rd, val, exc, frames))
        return out

    def _emit_helpers(self, k):
        self._add("@asynq()")
        self._add("def W%d(c):" % k)
        self._add("    if HPROBE == ('W', %d):" % k)
        self._add("        STACKS.append(format_asynq_stack())")
        self._add("    y = yield c")
        self._add("    while y.__class__ is Handoff:")
        self._add("        y = yield y.task")
        self._add("    return y")
        self._add("")
        self._add("")
        self._add("@asynq()")
        self._add("def M%d():" % k)
        self._add("    yield None")
        self._add("    if HPROBE == ('M', %d):" % k)
        self._add("        STACKS.append(format_asynq_stack())")
        self._add("    return Handoff(CHAIN[%d].asynq())" % (k + 1))
        self._add("")
        self._add("")
        for h in ("W%d" % k, "M%d" % k):
            self.info[h] = {"level": k, "leaf": False, "blk": "d", "role": "helper", "generator": True}

    def _emit_handoff(self, k, blk, link, role):
        name = hfn_name(k, blk, link, role)
        loop = ["while y.__class__ is Handoff:", "    y = yield y.task"]
        stmts = [["x = %d" % k]]
        if blk == "b":
            stmts.append(["y0 = yield DebugBatchItem('c18', %d)" % k])
        if link == "a":
            stmts += [["y = yield CHAIN[%d].asynq()" % (k + 1)], loop, ["z = (x, y)"], ["return z"]]
        elif link == "w":
            stmts += [["c = CHAIN[%d].asynq()" % (k + 1)], ["y = yield W%d.asynq(c)" % k], ["z = (x, y)"], ["return z"]]
        elif link == "m":
            stmts += [["h = yield M%d.asynq()" % k], ["y = yield h.task"], loop, ["z = (x, y)"], ["return z"]]
        else:
            stmts += [["c = CHAIN[%d].asynq()" % (k + 1)], ["return Handoff(c)"]]
        assert len(stmts) == handoff_positions(blk, link)
        ins = int(role[1:]) if role[0] == "q" else None
        self._add("@asynq()")
        self._add("def %s():" % name)
        gen = False
        for j, body in enumerate(stmts):
            if ins == j:
                self._add("    STACKS.append(format_asynq_stack())")
            for ln in body:
                self._add("    " + ln)
                gen = gen or "yield" in ln
        self._add("")
        self._add("")
        self.info[name] = {"level": k, "leaf": False, "blk": blk, "link": link, "role": role, "generator": gen}

    # a 3-level binary tree: T -> Ta, Tb -> Ta1 Ta2 / Tb1 Tb2 ; every node records its stack before and after its await.
    # TBLK[node]: bit0 = block on a batch item first, bit1 = yield the children as a tuple instead of a list.
    # TLINK[node] (inner nodes): 0 = the node awaits the children it created; 1 = it hands them to a helper task TW
    # (created by the node) that awaits them; 2 = it returns them un-awaited and whoever awaits the node awaits them
    TREE = {"T": ["Ta", "Tb"], "Ta": ["Ta1", "Ta2"], "Tb": ["Tb1", "Tb2"], "Ta1": [], "Ta2": [], "Tb1": [], "Tb2": []}
    TREE_ORDER = ["T", "Ta", "Tb", "Ta1", "Ta2", "Tb1", "Tb2"]

    def _emit_tree(self):
        self._add("@asynq()")
        self._add("def TW(owner, kids):")
        self._add("    STACKS.append(('TW:' + owner, 0, format_asynq_stack()))")
        self._add("    r = yield kids")
        self._add("    r = yield from RESOLVE(r)")
        self._add("    return r")
        self._add("")
        self._add("")
        for name in self.TREE_ORDER:
            kids = self.TREE[name]
            self._add("@asynq()")
            self._add("def %s():" % name)
            self._add("    STACKS.append(('%s', 0, format_asynq_stack()))" % name)
            self._add("    if TBLK['%s'] & 1:" % name)
            self._add("        yield DebugBatchItem('c18t', 0)")
            self._add("        STACKS.append(('%s', 1, format_asynq_stack()))" % name)
            if kids:
                self._add("    kids = [%s]" % ", ".join("%s.asynq()" % c for c in kids))
                self._add("    link = TLINK.get('%s', 0)" % name)
                self._add("    if link == 2:")
                self._add("        return Handoff(kids)")
                self._add("    if link == 1:")
                self._add("        r = yield TW.asynq('%s', kids)" % name)
                self._add("    elif TBLK['%s'] & 2:" % name)
                self._add("        r = yield tuple(kids)")
                self._add("    else:")
                self._add("        r = yield kids")
                self._add("    r = yield from RESOLVE(r)")
                self._add("    STACKS.append(('%s', 2, format_asynq_stack()))" % name)
            self._add("    return 0")
            self._add("")
            self._add("")

    def tree_path(self, name):
        path = [name]
        while True:
            par = [p for p, ks in self.TREE.items() if path[0] in ks]
            if not par:
                return path
            path.insert(0, par[0])

    def run_chain(self, names, hprobe=None):
        """-> (value, exception, [(function name, line)] of the generated-code frames of the escaping traceback, stacks)"""
        reset_asynq()
        ns = self.ns
        ns["CHAIN"][:] = [ns[n] for n in names]
        ns["HPROBE"] = tuple(hprobe) if hprobe else None
        del ns["STACKS"][:]
        val = exc = None
        frames = []
        try:
            val = ns[names[0]]()
            while val.__class__ is Handoff:  # the root handed its child to the harness: compute it outside any task
                val = val.task.value()
        except BaseException as e:  # noqa
            if isinstance(e, (KeyboardInterrupt, SystemExit, MemoryError)):
                raise
            exc = e
            tb = e.__traceback__
            while tb is not None:
                co = tb.tb_frame.f_code
                if co.co_filename == CHAIN_FILE:
                    frames.append((co.co_name, tb.tb_lineno))
                tb = tb.tb_next
            tb = None
        return val, exc, frames, list(ns["STACKS"])

    def run_tree(self, blk, link=None):
        reset_asynq()
        ns = self.ns
        ns["TBLK"].clear()
        ns["TBLK"].update(blk)
        ns["TLINK"].clear()
        ns["TLINK"].update(link or {})
        del ns["STACKS"][:]
        pend = [ns["T"]()]
        while pend:  # children handed up to the harness are computed here, outside any task
            r = pend.pop()
            if r.__class__ is Handoff:
                pend.extend(t.value() for t in r.task)
            elif r.__class__ in (list, tuple):
                pend.extend(r)
        return list(ns["STACKS"])


# ==================================================================================================
# C18 (d): every asynq object kind x lifecycle state x diagnostic operation

STD_OPS = ["str", "repr", "format", "dump", "dump_indent", "debug.str", "debug.repr"]


class FlushError(Exception):
    pass


class ItemError(Exception):
    pass


class BodyError(Exception):
    pass


class Probe(object):
    """handed to a state driver; the driver calls it exactly once with the object in the promised state"""

    def __init__(self, op):
        self.op = op
        self.calls = 0
        self.applicable = True
        self.error = None
        self.obj_type = None

    def __call__(self, obj):
        self.calls += 1
        if self.calls > 1:
            return
        self.obj_type = type(obj).__name__
        op = self.op
        try:
            if op == "str":
                str(obj)
            elif op == "repr":
                repr(obj)
            elif op == "format":
                "%s %r" % (obj, obj)
                "{} {!r}".format(obj, obj)
                [obj].__repr__()
            elif op == "dump" or op == "dump_indent":
                if not hasattr(obj, "dump"):
                    self.applicable = False
                elif op == "dump":
                    obj.dump()
                else:
                    obj.dump(3)
            elif op == "debug.str":
                _adebug.str(obj)
                _adebug.str(obj, truncate=False)
            elif op == "debug.repr":
                _adebug.repr(obj)
                _adebug.repr(obj, truncate=False)
            else:
                raise ValueError(op)
        except BaseException as e:  # noqa - the oracle: nothing may escape
            if isinstance(e, (KeyboardInterrupt, SystemExit, MemoryError)):
                raise
            self.error = e

    def run(self, thunk):
        """custom operation"""
        self.calls += 1
        try:
            thunk()
        except BaseException as e:  # noqa
            if isinstance(e, (KeyboardInterrupt, SystemExit, MemoryError)):
                raise
            self.error = e


_STATES = None


def states():
    """-> list of (kind, state, driver, ops).  driver(P) drives fresh objects into the state and calls P(obj)."""
    global _STATES
    if _STATES is None:
        _STATES = _build_states()
    return _STATES


def _build_states():
    import asynq.generator as _gen
    import asynq.scoped_value as _sv
    import asynq.mock_ as _mock
    from asynq import (asynq as asynq_deco, async_proxy, async_call, AsyncContext, NonAsyncContext, AsyncScopedValue,
                       async_override, BatchBase, BatchItemBase, ConstFuture, ErrorFuture, Future, FutureBase,
                       AsyncTask, async_generator, Value, list_of_generator, take_first, END_OF_GENERATOR)
    from asynq.batching import DebugBatch, DebugBatchItem

    out = []

    def S(kind, state, ops=None):
        def deco(fn):
            out.append((kind, state, fn, ops or STD_OPS))
            return fn
        return deco

    get_scheduler = _sched.get_scheduler
    get_active_task = _sched.get_active_task

    # ------------------------------------------------------------------ harness batch
    class PBatch(BatchBase):
        def __init__(self, box):
            BatchBase.__init__(self)
            self.box = box
            self.hook = box.get("hook")
            self.mode = box.get("mode", "ok")

        def _try_switch_active_batch(self):
            if self.box.get("cur") is self:
                self.box["cur"] = None

        def _flush(self):
            if self.hook is not None:
                self.hook(self)
            if self.mode == "raise":
                raise FlushError("flush failed")
            for it in self.items:
                if it.mode == "ok":
                    it.set_value(it.payload)
                elif it.mode == "err":
                    it.set_error(ItemError(it.payload))

    class PItem(BatchItemBase):
        def __init__(self, box, payload=7, mode="ok"):
            b = box.get("cur")
            if b is None:
                b = box["cur"] = PBatch(box)
            BatchItemBase.__init__(self, b)
            self.payload = payload
            self.mode = mode

    @asynq_deco()
    def work(*args, **kwargs):
        """general purpose task: first positional arg may be a script"""
        script = args[0] if args and isinstance(args[0], dict) else {}
        if "pre" in script:
            script["pre"]()
        if "item" in script:
            try:
                r = yield script["item"]()
            except Exception:
                if "in_except" in script:
                    script["in_except"]()
                if script.get("swallow"):
                    r = None
                else:
                    raise
            if "post" in script:
                script["post"]()
        else:
            r = None
        if "raise" in script:
            raise BodyError(script["raise"])
        if "ret" in script:
            return script["ret"]()
        return r

    @asynq_deco(pure=True)
    def pure_work(x):
        return x

    @async_proxy()
    def proxy_work(x):
        return ConstFuture(x)

    @async_proxy(pure=True)
    def pure_proxy_work(x):
        return ConstFuture(x)

    def sync_twin(x):
        return x

    @asynq_deco(sync_fn=sync_twin)
    def pair_work(x):
        return x

    def blocked(t):
        # AsyncTask.is_blocked() is not exposed by the compiled build
        return any(not d.is_computed() for d in t._dependencies)

    def run_quiet(thunk):
        try:
            return thunk()
        except Exception:
            return None

    # ------------------------------------------------------------------ futures
    @S("FutureBase", "uncomputed")
    def _(P):
        P(FutureBase())

    @S("FutureBase", "value")
    def _(P):
        f = FutureBase()
        f.set_value(5)
        P(f)

    @S("FutureBase", "error")
    def _(P):
        f = FutureBase()
        f.set_error(ValueError("x"))
        P(f)

    @S("FutureBase", "value-is-self")
    def _(P):
        f = FutureBase()
        f.set_value(f)
        P(f)

    @S("FutureBase", "value-is-uncomputed-future")
    def _(P):
        f = FutureBase()
        f.set_value(FutureBase())
        P(f)

    @S("FutureBase", "value-cycle-of-two")
    def _(P):
        a, b = FutureBase(), FutureBase()
        a.set_value([b])
        b.set_value({"k": a})
        P(a)

    @S("FutureBase", "error-is-self-referential")
    def _(P):
        f = FutureBase()
        e = ValueError("x")
        e.future = f
        e.args = (f,)
        f.set_error(e)
        P(f)

    @S("FutureBase", "reset")
    def _(P):
        f = FutureBase()
        f.set_value(5)
        f.reset_unsafe()
        P(f)

    @S("Future", "uncomputed")
    def _(P):
        P(Future(lambda: 1))

    @S("Future", "value")
    def _(P):
        f = Future(lambda: 1)
        f.value()
        P(f)

    @S("Future", "error")
    def _(P):
        def prov():
            raise ValueError("provider")
        f = Future(prov)
        run_quiet(f.value)
        assert f.is_computed() and f._error is not None
        P(f)

    @S("Future", "value-is-self")
    def _(P):
        box = []
        f = Future(lambda: box[0])
        box.append(f)
        f.value()
        P(f)

    @S("Future", "inside-its-provider")
    def _(P):
        box = []

        def prov():
            P(box[0])
            return 1
        f = Future(prov)
        box.append(f)
        f.value()

    @S("Future", "inside-on_computed")
    def _(P):
        f = Future(lambda: 1)
        f.on_computed.subscribe(lambda fut: P(fut))
        f.value()

    @S("ConstFuture", "value")
    def _(P):
        P(ConstFuture(3))

    @S("ConstFuture", "none_future")
    def _(P):
        P(asynq.none_future)

    @S("ConstFuture", "value-is-uncomputed-future")
    def _(P):
        P(ConstFuture(FutureBase()))

    @S("ConstFuture", "reset")
    def _(P):
        f = ConstFuture(3)
        f.reset_unsafe()
        P(f)

    @S("ConstFuture", "value-is-self")
    def _(P):
        f = ConstFuture(3)
        f.reset_unsafe()
        f.set_value(f)
        P(f)

    @S("ErrorFuture", "error")
    def _(P):
        P(ErrorFuture(ValueError("x")))

    @S("ErrorFuture", "error-was-raised")
    def _(P):
        try:
            raise ValueError("x")
        except ValueError as e:
            err = e
        P(ErrorFuture(err))

    @S("ErrorFuture", "error-is-baseexception")
    def _(P):
        P(ErrorFuture(GeneratorExit()))

    @S("ErrorFuture", "reset")
    def _(P):
        f = ErrorFuture(ValueError("x"))
        f.reset_unsafe()
        P(f)

    # ------------------------------------------------------------------ tasks
    @S("AsyncTask", "created")
    def _(P):
        P(work.asynq({}, 2, k=3))

    @S("AsyncTask", "created-pure")
    def _(P):
        P(pure_work(1))

    @S("AsyncTask", "created-by-task")
    def _(P):
        def pre():
            P(work.asynq({}))
        work({"pre": pre})

    @S("AsyncTask", "running-before-1st-yield")
    def _(P):
        work({"pre": lambda: P(get_active_task())})

    @S("AsyncTask", "running-after-resume")
    def _(P):
        box = {}
        work({"item": lambda: PItem(box), "post": lambda: P(get_active_task())})

    @S("AsyncTask", "running-after-nonblocking-yield")
    def _(P):
        work({"item": lambda: ConstFuture(1), "post": lambda: P(get_active_task())})

    @S("AsyncTask", "running-in-except-after-child-failed")
    def _(P):
        work({"item": lambda: work.asynq({"raise": "child"}), "in_except": lambda: P(get_active_task()), "swallow": True})

    @S("AsyncTask", "running-in-except-after-item-failed")
    def _(P):
        box = {}
        work({"item": lambda: PItem(box, 1, "err"), "in_except": lambda: P(get_active_task()), "swallow": True})

    @S("AsyncTask", "scheduled-not-started")
    def _(P):
        box = {}

        @asynq_deco()
        def root():
            a = work.asynq({"pre": lambda: P(box["b"])})
            box["b"] = work.asynq({})
            yield a, box["b"]
        root()

    @S("AsyncTask", "blocked-on-batch-item")
    def _(P):
        box = {}

        def hook(batch):
            assert blocked(box["t"])
            P(box["t"])
        box["hook"] = hook
        box["t"] = work.asynq({"item": lambda: PItem(box)})
        box["t"].value()

    @S("AsyncTask", "blocked-on-child-tasks")
    def _(P):
        box = {}

        def pre():
            assert blocked(box["t"])
            P(box["t"])
        box["t"] = work.asynq({"item": lambda: [work.asynq({"pre": pre}), work.asynq({})]})
        box["t"].value()

    @S("AsyncTask", "blocked-two-levels")
    def _(P):
        box = {}

        def hook(batch):
            P(box["t"])
        box["hook"] = hook
        box["t"] = work.asynq({"item": lambda: {"a": work.asynq({"item": lambda: PItem(box)}), "b": PItem(box)}})
        box["t"].value()

    @S("AsyncTask", "unblocked-not-yet-continued")
    def _(P):
        box = {}
        box["t"] = work.asynq({"item": lambda: PItem(box)})
        sch = get_scheduler()

        def after(batch):
            assert not box["t"].is_computed() and not blocked(box["t"])
            P(box["t"])
        sch.on_after_batch_flush.subscribe(after)
        try:
            box["t"].value()
        finally:
            sch.on_after_batch_flush.unsubscribe(after)

    @S("AsyncTask", "finished")
    def _(P):
        t = work.asynq({"ret": lambda: ("r", 1)})
        t.value()
        P(t)

    @S("AsyncTask", "finished-none")
    def _(P):
        t = work.asynq({})
        t.value()
        P(t)

    @S("AsyncTask", "finished-after-blocking")
    def _(P):
        box = {}
        t = work.asynq({"item": lambda: PItem(box)})
        t.value()
        P(t)

    @S("AsyncTask", "finished-value-is-self")
    def _(P):
        t = work.asynq({"ret": lambda: get_active_task()})
        assert t.value() is t
        P(t)

    @S("AsyncTask", "finished-value-is-uncomputed-task")
    def _(P):
        t = work.asynq({"ret": lambda: work.asynq({})})
        t.value()
        P(t)

    @S("AsyncTask", "failed")
    def _(P):
        t = work.asynq({"raise": "boom"})
        run_quiet(t.value)
        assert t.is_computed() and t._error is not None
        P(t)

    @S("AsyncTask", "failed-after-blocking")
    def _(P):
        box = {}
        t = work.asynq({"item": lambda: PItem(box), "raise": "boom"})
        run_quiet(t.value)
        P(t)

    @S("AsyncTask", "failed-error-crossed-tasks")
    def _(P):
        t = work.asynq({"item": lambda: work.asynq({"item": lambda: work.asynq({"raise": "deep"})})})
        run_quiet(t.value)
        assert hasattr(t._error, "_task")
        P(t)

    @S("AsyncTask", "failed-by-item-error")
    def _(P):
        box = {}
        t = work.asynq({"item": lambda: PItem(box, 1, "err")})
        run_quiet(t.value)
        P(t)

    @S("AsyncTask", "child-failed-parent-still-blocked")
    def _(P):
        box = {}

        def hook(batch):
            P(box["t"])
        box["hook"] = hook
        box["t"] = work.asynq({"item": lambda: [work.asynq({"raise": "early"}), PItem(box)]})
        run_quiet(box["t"].value)

    @S("AsyncTask", "args-are-asynq-objects")
    def _(P):
        box = {}
        it = PItem(box)
        done = work.asynq({})
        done.value()
        t = work.asynq({}, ConstFuture(1), Future(lambda: 2), ErrorFuture(ValueError("e")), work.asynq({}), done, it,
                       it.batch, get_scheduler(), AsyncScopedValue(4), Value(5), work, pure_work)
        P(t)

    @S("AsyncTask", "kwargs-are-asynq-objects")
    def _(P):
        box = {}
        it = PItem(box)
        t = work.asynq({}, f=ConstFuture(1), t=work.asynq({}), i=it, b=it.batch, s=get_scheduler(), v=AsyncScopedValue(4))
        t.value()
        P(t)

    @S("AsyncTask", "arg-contains-the-task-itself")
    def _(P):
        lst = []
        t = work.asynq({}, lst)
        lst.append(t)
        P(t)

    @S("AsyncTask", "arg-is-async-generator")
    def _(P):
        @async_generator()
        def g():
            yield Value(1)
        P(list_of_generator.asynq(g()))

    @S("AsyncTask", "arg-is-async-generator,finished")
    def _(P):
        @async_generator()
        def g():
            yield Value(1)
        t = list_of_generator.asynq(g())
        t.value()
        P(t)

    @S("AsyncTask", "COLLECT_PERF_STATS,arg-is-async-generator", ops=["run-with-perf-stats"])
    def _(P):
        @async_generator()
        def g():
            yield Value(1)
        _dbg.options.COLLECT_PERF_STATS = True
        P.run(lambda: list_of_generator(g()))

    @S("AsyncTask", "COLLECT_PERF_STATS,args-are-asynq-objects", ops=["run-with-perf-stats"])
    def _(P):
        box = {}
        _dbg.options.COLLECT_PERF_STATS = True
        it = PItem(box)
        P.run(lambda: work({}, ConstFuture(1), Future(lambda: 2), work.asynq({}), it, it.batch, get_scheduler(),
                           AsyncScopedValue(4), Value(5), f=FutureBase()))

    @S("AsyncTask", "COLLECT_PERF_STATS,finished")
    def _(P):
        box = {}
        _dbg.options.COLLECT_PERF_STATS = True
        t = work.asynq({"item": lambda: [PItem(box), work.asynq({})]})
        t.value()
        P(t)

    # ------------------------------------------------------------------ batches and items
    @S("BatchBase", "abstract-pending-empty")
    def _(P):
        P(BatchBase())

    @S("BatchBase subclass", "pending-empty")
    def _(P):
        P(PBatch({}))

    @S("BatchBase subclass", "pending-items")
    def _(P):
        box = {}
        PItem(box)
        PItem(box)
        P(box["cur"])

    @S("BatchBase subclass", "inside-flush-by-scheduler")
    def _(P):
        box = {"hook": lambda b: P(b)}
        work({"item": lambda: [PItem(box), PItem(box)]})

    @S("BatchBase subclass", "inside-flush-by-item.value()")
    def _(P):
        box = {"hook": lambda b: P(b)}
        PItem(box).value()

    @S("BatchBase subclass", "flushed")
    def _(P):
        box = {}
        it = PItem(box)
        it.value()
        assert it.batch.is_flushed() and not it.batch.items
        P(it.batch)

    @S("BatchBase subclass", "flushed,KEEP_DEPENDENCIES")
    def _(P):
        box = {}
        _dbg.options.KEEP_DEPENDENCIES = True
        it = PItem(box)
        it.value()
        assert it.batch.is_flushed() and it.batch.items
        P(it.batch)

    @S("BatchBase subclass", "cancelled")
    def _(P):
        box = {}
        it = PItem(box)
        it.batch.cancel()
        assert it.batch.is_cancelled()
        P(it.batch)

    @S("BatchBase subclass", "cancelled-with-custom-error")
    def _(P):
        box = {}
        it = PItem(box)
        it.batch.cancel(ValueError("why"))
        P(it.batch)

    @S("BatchBase subclass", "cancelled-empty")
    def _(P):
        b = PBatch({})
        b.cancel()
        P(b)

    @S("BatchBase subclass", "flush-failed")
    def _(P):
        box = {"mode": "raise"}
        it = PItem(box)
        run_quiet(it.value)
        assert it.batch.is_cancelled()
        P(it.batch)

    @S("BatchItemBase subclass", "pending")
    def _(P):
        P(PItem({}))

    @S("BatchItemBase subclass", "inside-flush")
    def _(P):
        box = {"hook": lambda b: P(b.items[0])}
        work({"item": lambda: PItem(box)})

    @S("BatchItemBase subclass", "value")
    def _(P):
        it = PItem({})
        it.value()
        P(it)

    @S("BatchItemBase subclass", "error")
    def _(P):
        it = PItem({}, 1, "err")
        run_quiet(it.value)
        P(it)

    @S("BatchItemBase subclass", "cancelled")
    def _(P):
        it = PItem({})
        it.batch.cancel()
        P(it)

    @S("BatchItemBase subclass", "left-unset-by-flush")
    def _(P):
        it = PItem({}, 1, "unset")
        run_quiet(it.value)
        assert isinstance(it._error, AssertionError)
        P(it)

    @S("BatchItemBase subclass", "value-is-its-batch")
    def _(P):
        it = PItem({})
        it.payload = it.batch
        it.value()
        P(it)

    @S("DebugBatch", "pending-empty")
    def _(P):
        P(DebugBatch("n"))

    @S("DebugBatch", "pending-items")
    def _(P):
        it = DebugBatchItem("n", 1)
        DebugBatchItem("n", 2)
        P(it.batch)

    @S("DebugBatch", "flushed")
    def _(P):
        it = DebugBatchItem("n", 1)
        it.value()
        P(it.batch)

    @S("DebugBatch", "flushed-by-scheduler,DUMP_SYNC")
    def _(P):
        _dbg.options.DUMP_SYNC = True
        box = {}

        def item():
            box["it"] = DebugBatchItem("n", 1)
            return box["it"]
        work({"item": item})
        P(box["it"].batch)

    @S("DebugBatch", "cancelled")
    def _(P):
        it = DebugBatchItem("n", 1)
        it.batch.cancel()
        P(it.batch)

    @S("DebugBatchItem", "pending")
    def _(P):
        P(DebugBatchItem("n", 1))

    @S("DebugBatchItem", "debug.sync()")
    def _(P):
        P(_adebug.sync())

    @S("DebugBatchItem", "value")
    def _(P):
        it = DebugBatchItem("n", 1)
        it.value()
        P(it)

    @S("DebugBatchItem", "cancelled")
    def _(P):
        it = DebugBatchItem("n", 1)
        it.batch.cancel()
        P(it)

    # ------------------------------------------------------------------ scheduler
    @S("TaskScheduler", "idle-fresh")
    def _(P):
        P(get_scheduler())

    @S("TaskScheduler", "detached-instance")
    def _(P):
        P(_sched.TaskScheduler())

    @S("TaskScheduler", "idle-after-run")
    def _(P):
        box = {}
        work({"item": lambda: PItem(box)})
        P(get_scheduler())

    @S("TaskScheduler", "idle-after-failed-run")
    def _(P):
        box = {}
        run_quiet(lambda: work({"item": lambda: PItem(box), "raise": "x"}))
        P(get_scheduler())

    @S("TaskScheduler", "inside-task")
    def _(P):
        work({"pre": lambda: P(get_scheduler())})

    @S("TaskScheduler", "inside-task,batches-pending,siblings-blocked")
    def _(P):
        box = {}

        def pre():
            sch = get_scheduler()
            assert len(sch._batches) >= 1 and len(sch._tasks) >= 2
            P(sch)
        work({"item": lambda: [work.asynq({"item": lambda: PItem(box)}), work.asynq({"pre": pre})]})

    @S("TaskScheduler", "inside-task-after-resume")
    def _(P):
        box = {}
        work({"item": lambda: PItem(box), "post": lambda: P(get_scheduler())})

    @S("TaskScheduler", "inside-flush")
    def _(P):
        box = {"hook": lambda b: P(get_scheduler())}
        work({"item": lambda: [PItem(box), work.asynq({"item": lambda: DebugBatchItem("n", 1)})]})

    @S("TaskScheduler", "inside-flush-forced-from-task")
    def _(P):
        box = {"hook": lambda b: P(get_scheduler())}
        work({"pre": lambda: PItem(box).value()})

    @S("TaskScheduler", "inside-before-flush-handler")
    def _(P):
        box = {}
        sch = get_scheduler()
        h = lambda b: P(sch)  # noqa
        sch.on_before_batch_flush.subscribe(h)
        try:
            work({"item": lambda: PItem(box)})
        finally:
            sch.on_before_batch_flush.unsubscribe(h)

    @S("TaskScheduler", "inside-after-flush-handler")
    def _(P):
        box = {}
        sch = get_scheduler()
        h = lambda b: P(sch)  # noqa
        sch.on_after_batch_flush.subscribe(h)
        try:
            work({"item": lambda: PItem(box)})
        finally:
            sch.on_after_batch_flush.unsubscribe(h)

    @S("TaskScheduler", "inside-nested-synchronous-call")
    def _(P):
        box = {}
        work({"item": lambda: [work.asynq({"pre": lambda: work({"item": lambda: PItem(box), "post": lambda: P(get_scheduler())})}),
                               PItem(box)]})

    @S("TaskScheduler", "inside-on_computed-of-task")
    def _(P):
        t = work.asynq({})
        t.on_computed.subscribe(lambda _t: P(get_scheduler()))
        t.value()

    @S("TaskScheduler", "after-task-stack-guard-tripped")
    def _(P):
        _dbg.options.MAX_TASK_STACK_SIZE = 3

        def deep(n):
            return lambda: work.asynq({"item": deep(n - 1)}) if n else ConstFuture(0)
        try:
            work({"item": deep(8)})
            raise AssertionError("guard not tripped")
        except RuntimeError:
            pass
        P(get_scheduler())

    # ------------------------------------------------------------------ scoped values and override contexts
    @S("AsyncScopedValue", "default")
    def _(P):
        P(AsyncScopedValue(1))

    @S("AsyncScopedValue", "set")
    def _(P):
        v = AsyncScopedValue(1)
        v.set("two")
        P(v)

    @S("AsyncScopedValue", "overridden-outside-task")
    def _(P):
        v = AsyncScopedValue(1)
        with v.override(2):
            P(v)

    @S("AsyncScopedValue", "overridden-inside-task")
    def _(P):
        v = AsyncScopedValue(1)
        box = {}

        @asynq_deco()
        def t():
            with v.override(2):
                yield PItem(box)
                P(v)
        t()

    @S("AsyncScopedValue", "override-paused-while-owner-blocked")
    def _(P):
        v = AsyncScopedValue(1)
        box = {"hook": lambda b: P(v)}

        @asynq_deco()
        def t():
            with v.override(2):
                yield PItem(box)
        t()

    @S("AsyncScopedValue", "value-is-asynq-object")
    def _(P):
        P(AsyncScopedValue(work.asynq({})))

    def _ctx_states(kind, make):
        @S(kind, "created")
        def _(P):
            P(make()[0])

        @S(kind, "entered-outside-task")
        def _(P):
            c = make()[0]
            with c:
                P(c)

        @S(kind, "entered-inside-task")
        def _(P):
            c = make()[0]

            @asynq_deco()
            def t():
                with c:
                    P(c)
                    yield ConstFuture(1)
            t()

        @S(kind, "resumed-inside-task")
        def _(P):
            c = make()[0]
            box = {}

            @asynq_deco()
            def t():
                with c:
                    yield PItem(box)
                    P(c)
            t()

        @S(kind, "paused-while-owner-blocked")
        def _(P):
            c = make()[0]
            box = {"hook": lambda b: P(c)}

            @asynq_deco()
            def t():
                with c:
                    yield PItem(box)
            t()

        @S(kind, "exited")
        def _(P):
            c = make()[0]
            with c:
                pass
            P(c)

        @S(kind, "exited-by-exception")
        def _(P):
            c = make()[0]
            try:
                with c:
                    raise ValueError("x")
            except ValueError:
                pass
            P(c)

        @S(kind, "nested-in-itself-kind")
        def _(P):
            c1 = make()[0]
            c2 = make()[0]
            with c1:
                with c2:
                    P(c2)

    class Target(object):
        attr = 0

    _ctx_states("_AsyncScopedValueOverrideContext", lambda: (AsyncScopedValue(1).override(2),))
    _ctx_states("_AsyncScopedValueOverrideContext(value is a task)", lambda: (AsyncScopedValue(FutureBase()).override(work.asynq({})),))
    _ctx_states("async_override", lambda: (async_override(Target(), "attr", 5),))
    _ctx_states("AsyncTimer", lambda: (_tools.AsyncTimer(),))

    class PlainCtx(AsyncContext):
        def resume(self):
            pass

        def pause(self):
            pass

    class PlainNonAsync(NonAsyncContext):
        pass

    _ctx_states("AsyncContext subclass", lambda: (PlainCtx(),))

    @S("NonAsyncContext subclass", "created")
    def _(P):
        P(PlainNonAsync())

    @S("NonAsyncContext subclass", "entered-outside-task")
    def _(P):
        c = PlainNonAsync()
        with c:
            P(c)

    @S("NonAsyncContext subclass", "entered-inside-task")
    def _(P):
        c = PlainNonAsync()

        def pre():
            with c:
                P(c)
        work({"pre": pre})

    @S("NonAsyncContext subclass", "violated-by-yield")
    def _(P):
        c = PlainNonAsync()
        box = {}

        @asynq_deco()
        def t():
            with c:
                yield PItem(box)
        run_quiet(t)
        P(c)

    # ------------------------------------------------------------------ async generators
    def make_gen(box=None, P=None):
        @async_generator()
        def g():
            if P is not None:
                P(box["g"])
            x = yield ConstFuture(1)
            yield Value(x)
            y = yield DebugBatchItem("g", 2)
            yield Value(y)
        return g()

    @S("_AsyncGenerator", "fresh")
    def _(P):
        P(make_gen())

    @S("_AsyncGenerator", "mid")
    def _(P):
        g = make_gen()
        assert next(g).value() == 1
        P(g)

    @S("_AsyncGenerator", "pending-uncomputed-task")
    def _(P):
        g = make_gen()
        t = next(g)
        assert not t.is_computed()
        P(g)

    @S("_AsyncGenerator", "inside-its-body")
    def _(P):
        box = {}
        box["g"] = make_gen(box, P)
        next(box["g"]).value()

    @S("_AsyncGenerator", "stopped")
    def _(P):
        g = make_gen()
        for t in g:
            t.value()
        assert g.is_stopped
        P(g)

    @S("_AsyncGenerator", "stopped,advanced-again")
    def _(P):
        g = make_gen()
        for t in g:
            t.value()
        try:
            next(g)
        except StopIteration:
            pass
        P(g)

    @S("Value", "plain")
    def _(P):
        P(Value(1))

    @S("Value", "value-is-future")
    def _(P):
        P(Value(FutureBase()))

    @S("END_OF_GENERATOR", "marker")
    def _(P):
        P(END_OF_GENERATOR)

    # ------------------------------------------------------------------ decorators
    class C(object):
        @asynq_deco()
        def m(self, x=0):
            return x

        @asynq_deco(pure=True)
        def pm(self, x=0):
            return x

        @async_proxy()
        def px(self, x=0):
            return ConstFuture(x)

        @classmethod
        @asynq_deco()
        def cm(cls, x=0):
            return x

        @staticmethod
        @asynq_deco()
        def sm(x=0):
            return x

        @_tools.deduplicate()
        @asynq_deco()
        def dm(self, x=0):
            return x

        @_tools.acached_per_instance()
        @asynq_deco()
        def am(self, x=0):
            return x

        def __str__(self):
            return "C()"

    @_tools.deduplicate()
    @asynq_deco()
    def dedup_fn(x=0):
        return x

    @_tools.alru_cache(maxsize=2)
    @asynq_deco()
    def lru_fn(x=0):
        return x

    def _fn_states(kind, get):
        @S(kind, "decorated-callable")
        def _(P):
            P(get())

        @S(kind, ".asynq attribute")
        def _(P):
            f = get()
            if not hasattr(f, "asynq"):
                P.applicable = False
                P.calls += 1
                return
            P(f.asynq)

    _fn_states("@asynq() function", lambda: work)
    _fn_states("@asynq(pure=True) function", lambda: pure_work)
    _fn_states("@async_proxy() function", lambda: proxy_work)
    _fn_states("@async_proxy(pure=True) function", lambda: pure_proxy_work)
    _fn_states("@asynq(sync_fn=) function", lambda: pair_work)
    _fn_states("@asynq() method via class", lambda: C.m)
    _fn_states("@asynq() method bound", lambda: C().m)
    _fn_states("@asynq(pure=True) method bound", lambda: C().pm)
    _fn_states("@async_proxy() method bound", lambda: C().px)
    _fn_states("@asynq() classmethod", lambda: C.cm)
    _fn_states("@asynq() staticmethod", lambda: C.sm)
    _fn_states("@deduplicate() function", lambda: dedup_fn)
    _fn_states("@deduplicate() method bound", lambda: C().dm)
    _fn_states("@acached_per_instance() method bound", lambda: C().am)
    _fn_states("@alru_cache() function", lambda: lru_fn)
    _fn_states("async_call", lambda: async_call)
    _fn_states("list_of_generator", lambda: list_of_generator)
    _fn_states("AsyncEventHook.trigger bound", lambda: _tools.AsyncEventHook().trigger)

    @S("AsyncEventHook", "empty")
    def _(P):
        P(_tools.AsyncEventHook())

    @S("AsyncEventHook", "with-async-handler")
    def _(P):
        h = _tools.AsyncEventHook()
        h.subscribe(work)
        P(h)

    # ------------------------------------------------------------------ exceptions and misc
    @S("AsyncTaskResult", "instance")
    def _(P):
        P(asynq.AsyncTaskResult(FutureBase()))

    @S("AsyncTaskCancelledError", "instance")
    def _(P):
        P(asynq.AsyncTaskCancelledError())

    @S("FutureIsAlreadyComputed", "raised-by-set_value")
    def _(P):
        f = ConstFuture(1)
        try:
            f.set_value(2)
        except asynq.FutureIsAlreadyComputed as e:
            P(e)

    @S("BatchingError", "raised-by-second-flush")
    def _(P):
        it = PItem({})
        it.value()
        try:
            it.batch.flush()
        except asynq.BatchingError as e:
            P(e)

    @S("BatchCancelledError", "error-of-cancelled-item")
    def _(P):
        it = PItem({})
        it.batch.cancel()
        P(it._error)

    @S("DebugOptions", "defaults")
    def _(P):
        P(_dbg.options)

    @S("DebugOptions", "all-dump-options-on")
    def _(P):
        # not via options.DUMP_ALL(True): in the pure build qcore.set_by_mask also overwrites the DUMP_ALL method itself
        for n in _OPTION_NAMES:
            if n.startswith("DUMP_"):
                setattr(_dbg.options, n, True)
        P(_dbg.options)

    @S("mock.patch", "created")
    def _(P):
        P(_mock.patch("asynq.tools.utime", lambda: 0))

    @S("mock.patch", "entered")
    def _(P):
        p = _mock.patch.object(Target, "attr", 9)
        with p:
            P(p)

    return out


# ------------------------------------------------------------------------------------------------
# C18 (d): format_error inputs

FE_TBS = ["none", "own", "foreign"]
FE_FLAGS = [(True, True), (True, False), (False, True), (False, False)]  # (syntax highlighting, filter_traceback)
FE_OPS = ["format_error", "dump_error", "logging-formatter", "format_tb"]


def error_makers():
    """-> list of (name, is_exception, maker); maker() -> fresh error object"""
    from asynq import asynq as asynq_deco

    @asynq_deco()
    def fail(n, blk):
        if blk:
            yield _batching.DebugBatchItem("fe", 1)
        if n:
            yield fail.asynq(n - 1, blk)
        raise ValueError("crossed")

    def raised(e):
        try:
            raise e
        except BaseException as x:  # noqa
            return x

    def crossed(n, blk):
        try:
            fail(n, blk)
        except ValueError as e:
            return e

    def chained():
        try:
            try:
                raise KeyError("inner")
            except KeyError as k:
                raise ValueError("outer") from k
        except ValueError as e:
            return e

    def context_of_crossed():
        try:
            try:
                fail(1, True)
            except ValueError:
                raise RuntimeError("while handling")
        except RuntimeError as e:
            return e

    class BadStr(Exception):
        def __str__(self):
            raise RuntimeError("str failed")

    class BadRepr(Exception):
        def __repr__(self):
            raise RuntimeError("repr failed")

    def with_attr(e, **kw):
        for k, v in kw.items():
            setattr(e, k, v)
        return e

    def noted():
        e = raised(ValueError("noted"))
        e.add_note("a note")
        return e

    def group():
        return raised(ExceptionGroup("grp", [ValueError("a"), crossed(1, False)]))

    def uni():
        try:
            b"\xff".decode("utf-8")
        except UnicodeDecodeError as e:
            return e

    return [
        ("None", False, lambda: None),
        ("never-raised", True, lambda: ValueError("fresh")),
        ("never-raised-no-args", True, lambda: Exception()),
        ("raised-and-caught", True, lambda: raised(ValueError("caught"))),
        ("crossed-1-task", True, lambda: crossed(0, False)),
        ("crossed-3-tasks", True, lambda: crossed(2, False)),
        ("crossed-3-tasks-blocking", True, lambda: crossed(2, True)),
        ("_traceback-attribute-is-None", True, lambda: with_attr(ValueError("x"), _traceback=None)),
        ("_task-without-_traceback", True, lambda: with_attr(ValueError("x"), _task=None)),
        ("raised-with-_traceback-None", True, lambda: with_attr(raised(ValueError("x")), _traceback=None)),
        ("explicit-cause-chain", True, chained),
        ("context-is-crossed-error", True, context_of_crossed),
        ("exception-group", True, group),
        ("with-notes", True, noted),
        ("SyntaxError", True, lambda: SyntaxError("bad syntax", ("f.py", 1, 4, "x = (\n"))),
        ("UnicodeDecodeError", True, uni),
        ("non-ascii-message", True, lambda: raised(ValueError("déjà ☃ \U0001f600"))),
        ("bytes-message", True, lambda: ValueError(b"\xff\xfe")),
        ("str-raises", True, lambda: raised(BadStr("x"))),
        ("repr-raises", True, lambda: raised(BadRepr("x"))),
        ("KeyboardInterrupt", True, lambda: raised(KeyboardInterrupt())),
        ("GeneratorExit", True, lambda: GeneratorExit()),
        ("SystemExit", True, lambda: raised(SystemExit(3))),
        ("AsyncTaskResult", True, lambda: asynq.AsyncTaskResult(1)),
        ("AsyncTaskCancelledError", True, lambda: asynq.AsyncTaskCancelledError()),
        ("StopIteration-with-value", True, lambda: StopIteration(5)),
        ("non-exception:str", False, lambda: "just text"),
        ("non-exception:int", False, lambda: 42),
        ("non-exception:object", False, lambda: object()),
        ("non-exception:future", False, lambda: asynq.ConstFuture(1)),
        ("non-exception:exception-class", False, lambda: ValueError),
    ]


def foreign_tb():
    try:
        raise KeyError("foreign")
    except KeyError as e:
        return e.__traceback__


def run_format_error(name, tbkind, flags, op):
    """-> None | exception raised by the diagnostic | 'n/a'"""
    import logging
    reset_asynq()
    makers = dict((n, (isx, mk)) for n, isx, mk in error_makers())
    isx, mk = makers[name]
    err = mk()
    if tbkind == "none":
        tb = None
    elif tbkind == "own":
        tb = getattr(err, "__traceback__", None)
        if tb is None:
            return "n/a"
    else:
        tb = foreign_tb()
    if not isx and tb is not None:
        return "n/a"  # the statement speaks of exceptions; a traceback for a non-exception is meaningless
    _adebug._use_syntax_highlighting, _adebug._should_filter_traceback = flags
    try:
        if op == "format_error":
            r = _adebug.format_error(err, tb=tb)
            if err is None:
                if r is not None:
                    return AssertionError("format_error(None) returned %r" % (r,))
            elif not isinstance(r, str):
                return AssertionError("format_error returned %r" % (r,))
        elif op == "dump_error":
            _adebug.dump_error(err, tb=tb)
        elif op == "logging-formatter":
            if not isx:
                return "n/a"
            _adebug.AsynqStackTracebackFormatter().formatException((type(err), err, tb))
        elif op == "format_tb":
            t = tb if tb is not None else getattr(err, "_traceback", None)
            if t is None:
                return "n/a"
            _adebug.format_tb(t)
            _adebug.extract_tb(t, limit=2)
        else:
            raise ValueError(op)
    except BaseException as e:  # noqa
        if isinstance(e, (KeyboardInterrupt, SystemExit, MemoryError)) and not name.startswith(("Keyboard", "System")):
            raise
        return e
    finally:
        reset_asynq()
    return None
