"""Regenerates /verif/MANIFEST.json from the check modules present under mc/checks."""
import importlib
import json
import os

VERIF = os.path.dirname(os.path.dirname(os.path.abspath(__file__)))
ALL = ["C%02d" % i for i in range(1, 21)]
ENGINES = [
    {"name": "PROGX", "path": "mc/prog.py mc/world.py mc/explore.py mc/progx.py mc/gen.py mc/r2.py",
     "serves_properties": ["C01", "C02", "C03", "C04", "C05", "C06", "C07", "C08", "C12", "C20"],
     "kind_free_text": "exhaustive task-program x flush-schedule exploration of the real scheduler (stateless DFS), lock-step reference models"},
    {"name": "HISTX", "path": "mc/histx.py", "serves_properties": ["C10", "C11", "C13", "C17"],
     "kind_free_text": "explicit-state BFS over operation histories on real objects vs reference state machines"},
    {"name": "PRODX", "path": "mc/checks", "serves_properties": ["C09", "C14", "C15", "C18", "C19"],
     "kind_free_text": "exhaustive finite products / bounded input spaces vs reference functions"},
    {"name": "THREADX", "path": "mc/threadx.py", "serves_properties": ["C16"],
     "kind_free_text": "preemption-bounded exhaustive interleaving exploration of real threads under a baton scheduler"},
]


def main():
    checks = []
    na = []
    with open(os.path.join(VERIF, "mc", "claimed.txt")) as f:
        claimed = set(f.read().split())
    for pid in ALL:
        if pid not in claimed:
            na.append({"property_id": pid, "reason": "check not finished yet (work in progress; design in DESIGN.md section 6)"})
            continue
        try:
            m = importlib.import_module("mc.checks.%s" % pid.lower())
        except ImportError:
            na.append({"property_id": pid, "reason": "check not built yet (work in progress; design in DESIGN.md section 6)"})
            continue
        if getattr(m, "NOT_APPLICABLE", None):
            na.append({"property_id": pid, "reason": m.NOT_APPLICABLE})
            continue
        checks.append({
            "property_id": pid,
            "quick_cmd": "bin/check %s quick" % pid,
            "thorough_cmd": "bin/check %s thorough" % pid,
            "evidence_file": "evidence/%s.json" % pid,
            "replay_cmd_template": "bin/check %s --replay {path}" % pid,
            "engine": getattr(m, "ENGINE", "PROGX"),
            "level_claimed": {
                "category": "model_checking",
                "text": getattr(m, "LEVEL_TEXT", m.RULE),
                "design_ref": "DESIGN.md section 6 / %s" % pid,
            },
            "level_note": "; ".join(getattr(m, "ASSUMPTIONS", [])) or "bounded exhaustive exploration within the stated alphabet",
            "technique": getattr(m, "TECHNIQUE", "bounded exhaustive exploration of the real implementation (stateless model checking) against a lock-step reference model"),
        })
    man = {
        "version": 1,
        "setup_cmd": "bin/setup",
        "hooks": {
            "guard": "ASYNQ_VERIF",
            "enable": "no source hooks are needed: checks snapshot /repo's working tree into a scratch build (pure + Cython) and observe through public override points",
            "baseline_off_cmd": "cd /repo && /venv/bin/python -m pytest -ra -q -p no:cacheprovider --timeout=900 --continue-on-collection-errors",
            "source_commits": [],
            "add_only": True,
        },
        "engines": ENGINES,
        "checks": checks,
        "not_applicable": na,
        "notes": "All checks rebuild quora/asynq from /repo's working tree (pure-Python copy and Cython build) into /var/tmp/asynq-verif-cache/<tree-hash>; known findings in known_findings.json.",
    }
    with open(os.path.join(VERIF, "MANIFEST.json"), "w") as f:
        json.dump(man, f, indent=1)
        f.write("\n")
    print("claimed:", [c["property_id"] for c in checks])


if __name__ == "__main__":
    main()
