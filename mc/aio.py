"""Dual-mode interpreter of compiled batch-free programs (mc.prog) for C15.

The same compiled program is evaluated
  * by real @asynq() generator functions (`t_fn`, `Obj.t_m`, `t_px` ...) - once synchronously on the asynq
    scheduler (`fn(code)`) and once as `await fn.asyncio(code)` on an asyncio event loop, and
  * (for functions declared with an explicit `asyncio_fn=`) by a native `async def` evaluator that a user
    would write by hand: children awaited through `child.asyncio(...)`, structures with
    `asyncio.gather(..., return_exceptions=True)` + "raise the first failure in structure order".

No World monitors: every body only appends to the recorder `R.log`

  ("s", tid, flag)            body of task `tid` started          (flag = asynq.is_asyncio_mode() right there)
  ("r", tid, sid, val, flag)  resumed after yield `sid` with value `val`
  ("x", tid, sid, tok, flag)  resumed after yield `sid` with an exception (token `tok`)
  ("c", tid, sid, tok, flag)  the except clause of try statement `sid` caught `tok`
  ("p", tid, sid, flag)       explicit probe statement
  ("q", tid, sid, res, flag)  plain synchronous call `other_asynq_fn(code)` returned ("ok") / raised (token)
  ("e", tid, res, flag)       body finished ("ok") / raised (token)

Import only in workers (imports asynq).
"""
import asyncio

import asynq
import asynq.scheduler as _sched
import asynq.profiler as _profiler
import asynq.tools as _tools
import asynq.batching as _batching
from asynq import asynq as _asynq_deco, async_proxy, ConstFuture, ErrorFuture, Future, is_asyncio_mode

from .prog import HErr, tok, R1, _R1Err

STYLES = ("fn", "method", "proxy", "mix")


class HVal(Exception):
    """an exception object used as an ORDINARY VALUE (never raised by the harness): HVal(payload)"""
R = None  # current recorder


class Rec(object):
    __slots__ = ("log", "style", "aio", "mode", "closed", "native", "loop_errors", "flags_outer", "flags_watch", "const_flags", "iters", "errs", "xv",
                 "pause", "log2", "out2", "flags_watch2", "watch2_calls")

    def __init__(self, style, aio, mode, xv=0):
        self.xv = xv  # 1: every constant and every task return value is an Exception INSTANCE (an ordinary value)
        self.log = []
        self.style = style  # 0 fn, 1 method, 2 async_proxy, 3 mixed by task id (fn, method, proxy, async_call)
        self.aio = aio  # 0: no explicit asyncio_fn; 1: tasks with even id have one; 2: odd ids
        self.mode = mode  # "sync" | "aio"
        self.closed = False
        self.native = set()  # tids evaluated by the hand written async def
        self.loop_errors = []
        self.flags_outer = []
        self.flags_watch = []
        self.pause = False  # second phase: the first bodies suspend once (await asyncio.sleep(0)) so the call is really in flight
        self.log2 = None  # body log of the second `await fn.asyncio(code)` in the same driver coroutine
        self.out2 = None
        self.flags_watch2 = []  # samples of the watcher created AFTER the first call completed
        self.watch2_calls = []  # results of that watcher's own plain synchronous @asynq calls
        self.const_flags = []
        self.iters = 0
        self.errs = []


class _NullRec(object):
    closed = True
    pause = False
    style = 0
    aio = 0
    xv = 0
    mode = "none"

    def __init__(self):
        self.log = []
        self.native = set()
        self.loop_errors = []
        self.const_flags = []
        self.errs = []


NULLR = _NullRec()
R = NULLR


# --------------------------------------------------------------------------------------------------
# routing of a task code to one of the six decorated callables


def _route(r, tc):
    """the callable `f` through which task `tc` is reached: f.asynq(tc) is yielded by generator bodies, f.asyncio(tc) awaited
    by hand-written async bodies, f(tc) is the plain synchronous call"""
    tid = tc.tid
    st = r.style
    if st == 3:
        st = tid % 4
    ex = 1 if (r.aio and (tid + r.aio) % 2 == 1) else 0
    if st == 0:
        return tx_fn if ex else t_fn
    if st == 1:
        return OBJ.tx_m if ex else OBJ.t_m
    if st == 2:
        return tx_px if ex else t_px
    return VIA_CALL_X if ex else VIA_CALL


def _const(r, lid):
    """a constant leaf: a plain ConstFuture, or an @async_proxy function returning a ConstFuture, or a non-generator
    @asynq() function / method returning the value (the second branch of convert_asynq_to_async)"""
    st = r.style
    if st == 3:
        st = lid % 3
    v = HVal(("k", lid)) if r.xv else ("k", lid)
    if st == 0:
        return ConstFuture(v)
    if st == 1:
        return OBJ.c_m.asynq(v)
    return k_px.asynq(v)


# --------------------------------------------------------------------------------------------------
# generator interpreter (the body of every @asynq() function below)


def _build(r, s):
    op = s[0]
    if op == "c":
        return _route(r, s[2]).asynq(s[2])
    if op == "k":
        return _const(r, s[1])
    if op == "n":
        return None
    if op == "L":
        return [_build(r, x) for x in s[1]]
    if op == "T":
        return tuple([_build(r, x) for x in s[1]])
    if op == "D":
        return {k: _build(r, x) for k, x in s[1]}
    # informational family only
    if op == "ef":
        e = HErr(("ef", s[1]))
        r.errs.append(e)
        return ErrorFuture(e)
    if op == "lz":
        lid = s[1]
        if s[2] == "ok":
            return Future(lambda: ("z", lid))

        def prov():
            e = HErr(("lz", lid))
            r.errs.append(e)
            raise e

        return Future(prov)
    raise ValueError(s)


def _gblock(r, tc, stmts, rec):
    log = r.log
    tid = tc.tid
    for st in stmts:
        op = st[0]
        if op == "y":
            struct = _build(r, st[2])
            try:
                val = yield struct
            except BaseException as e:
                if not r.closed:
                    log.append(("x", tid, st[1], tok(e), is_asyncio_mode()))
                raise
            log.append(("r", tid, st[1], val, is_asyncio_mode()))
            rec.append(val)
        elif op == "try":
            try:
                yield from _gblock(r, tc, st[2], rec)
            except Exception as e:
                t = tok(e)
                log.append(("c", tid, st[1], t, is_asyncio_mode()))
                rec.append(e if r.xv else ("caught", t))  # xv: the caught exception object itself becomes part of the value
                yield from _gblock(r, tc, st[3], rec)
        elif op == "raise":
            raise HErr(("raise", tid, st[1]))
        elif op == "probe":
            log.append(("p", tid, st[1], is_asyncio_mode()))
        elif op == "sync":
            callee = st[2]
            flag = is_asyncio_mode()
            try:
                v = _route(r, callee)(callee)  # plain synchronous call of an @asynq() function
            except BaseException as e:
                if not r.closed:
                    log.append(("q", tid, st[1], tok(e), flag))
                raise
            log.append(("q", tid, st[1], "ok", flag))
            rec.append(v)
        elif op == "res":
            asynq.result(("t", tid, tuple(rec)))
        else:
            raise ValueError(op)


def _gtask(tc):
    r = R
    log = r.log
    tid = tc.tid
    log.append(("s", tid, is_asyncio_mode()))
    if r.pause and tid <= 1:
        yield asyncio.sleep(0)  # harness device (second phase, asyncio only): a real suspension point, not logged
    rec = []
    try:
        yield from _gblock(r, tc, tc.stmts, rec)
    except BaseException as e:
        if not r.closed:
            log.append(("e", tid, tok(e), is_asyncio_mode()))
        raise
    log.append(("e", tid, "ok", is_asyncio_mode()))
    if r.xv:
        return HVal(("t", tid, tuple(rec)))
    return ("t", tid, tuple(rec))


# --------------------------------------------------------------------------------------------------
# native evaluator: what a user passes as asyncio_fn=


class _Slot(object):
    __slots__ = ("i",)

    def __init__(self, i):
        self.i = i


class _Kv(object):
    __slots__ = ("v",)

    def __init__(self, v):
        self.v = v


class _NReturn(Exception):
    def __init__(self, v):
        self.v = v


def _nbuild(r, s, coros):
    op = s[0]
    if op == "c":
        coros.append(_route(r, s[2]).asyncio(s[2]))
        return _Slot(len(coros) - 1)
    if op == "k":
        return _Kv(HVal(("k", s[1])) if r.xv else ("k", s[1]))
    if op == "n":
        return None
    if op == "L":
        return [_nbuild(r, x, coros) for x in s[1]]
    if op == "T":
        return tuple([_nbuild(r, x, coros) for x in s[1]])
    if op == "D":
        return {k: _nbuild(r, x, coros) for k, x in s[1]}
    raise ValueError(s)


def _nfill(t, res):
    c = t.__class__
    if c is _Slot:
        return res[t.i]
    if c is _Kv:
        return t.v
    if c is list:
        return [_nfill(x, res) for x in t]
    if c is tuple:
        return tuple([_nfill(x, res) for x in t])
    if c is dict:
        return {k: _nfill(x, res) for k, x in t.items()}
    return t


async def _settle(coro):
    # outcome of one child without confusing "returned an exception object" with "raised"
    try:
        return (True, await coro)
    except Exception as e:
        return (False, e)


async def _nyield(r, s):
    if s[0] == "c":
        return await _route(r, s[2]).asyncio(s[2])
    coros = []
    shape = _nbuild(r, s, coros)
    if not coros:
        return _nfill(shape, ())
    res = await asyncio.gather(*[_settle(c) for c in coros])  # all children finish; then first failure in order
    for ok, x in res:
        if not ok:
            raise x
    return _nfill(shape, [x for ok, x in res])


async def _nblock(r, tc, stmts, rec):
    log = r.log
    tid = tc.tid
    for st in stmts:
        op = st[0]
        if op == "y":
            try:
                val = await _nyield(r, st[2])
            except BaseException as e:
                if not r.closed:
                    log.append(("x", tid, st[1], tok(e), is_asyncio_mode()))
                raise
            log.append(("r", tid, st[1], val, is_asyncio_mode()))
            rec.append(val)
        elif op == "try":
            try:
                await _nblock(r, tc, st[2], rec)
            except Exception as e:
                if e.__class__ is _NReturn:
                    raise
                t = tok(e)
                log.append(("c", tid, st[1], t, is_asyncio_mode()))
                rec.append(e if r.xv else ("caught", t))
                await _nblock(r, tc, st[3], rec)
        elif op == "raise":
            raise HErr(("raise", tid, st[1]))
        elif op == "probe":
            log.append(("p", tid, st[1], is_asyncio_mode()))
        elif op == "res":
            raise _NReturn(("t", tid, tuple(rec)))
        else:
            raise ValueError(op)


async def _ntask(tc):
    r = R
    log = r.log
    tid = tc.tid
    r.native.add(tid)
    log.append(("s", tid, is_asyncio_mode()))
    if r.pause and tid <= 1:
        await asyncio.sleep(0)
    rec = []
    try:
        await _nblock(r, tc, tc.stmts, rec)
    except _NReturn as ret:
        log.append(("e", tid, "ok", is_asyncio_mode()))
        return ret.v
    except BaseException as e:
        if not r.closed:
            log.append(("e", tid, tok(e), is_asyncio_mode()))
        raise
    log.append(("e", tid, "ok", is_asyncio_mode()))
    if r.xv:
        return HVal(("t", tid, tuple(rec)))
    return ("t", tid, tuple(rec))


async def _ntask_m(self, tc):
    assert self is OBJ
    return await _ntask(tc)


# --------------------------------------------------------------------------------------------------
# the decorated callables: function / method / async_proxy, without / with explicit asyncio_fn


@_asynq_deco()
def t_fn(tc):
    return (yield from _gtask(tc))


@_asynq_deco(asyncio_fn=_ntask)
def tx_fn(tc):
    return (yield from _gtask(tc))


class Obj(object):
    @_asynq_deco()
    def t_m(self, tc):
        assert self is OBJ
        return (yield from _gtask(tc))

    @_asynq_deco(asyncio_fn=_ntask_m)
    def tx_m(self, tc):
        assert self is OBJ
        return (yield from _gtask(tc))

    @_asynq_deco()
    def c_m(self, v):
        # not a generator: runs inside `with AsyncioMode()` under .asyncio(), inside an AsyncTask on the scheduler
        assert self is OBJ
        R.const_flags.append(is_asyncio_mode())
        return v


OBJ = Obj()


@async_proxy()
def t_px(tc):
    return t_fn.asynq(tc)


@async_proxy(asyncio_fn=_ntask)
def tx_px(tc):
    return tx_fn.asynq(tc)


@async_proxy()
def k_px(v):
    return ConstFuture(v)


@_asynq_deco()
def w_probe(n):
    v = yield ConstFuture(("w", n))
    return v


class _ViaAsyncCall(object):
    """asynq's own async_call (an @async_proxy with asyncio_fn=asyncio_call) applied to a task function"""

    def __init__(self, target):
        self.target = target

    def asynq(self, tc):
        return asynq.async_call.asynq(self.target, tc)

    def asyncio(self, tc):
        return asynq.async_call.asyncio(self.target, tc)

    def __call__(self, tc):
        return asynq.async_call(self.target, tc)


VIA_CALL = _ViaAsyncCall(t_fn)
VIA_CALL_X = _ViaAsyncCall(tx_fn)


# --------------------------------------------------------------------------------------------------
# reference for the asyncio side of programs with plain synchronous calls: the call is refused


class R1A(R1):
    """R1 where a plain synchronous call raises RuntimeError (callee never starts)."""

    def block(self, tc, stmts, rec, made):
        for st in stmts:
            if st[0] == "sync":
                raise _R1Err(("exc", "RuntimeError"))
            R1.block(self, tc, (st,), rec, made)


def r1a_eval(prog):
    r = R1A(prog)
    return r, r.run()


# --------------------------------------------------------------------------------------------------
# running


def reset_asynq():
    _sched.reset()
    _profiler.reset()
    _tools.DeduplicateDecorator.tasks.clear()
    _batching._debug_batch_state.batches.clear()


def run_sync(prog, style, aio, xv=0):
    """`fn(code)` on the asynq scheduler. Returns (recorder, ("ok", value) | ("err", exception))."""
    global R
    reset_asynq()
    r = R = Rec(style, aio, "sync", xv)
    r.flags_outer.append(is_asyncio_mode())
    try:
        try:
            out = ("ok", _route(r, prog.root)(prog.root))
        except BaseException as e:
            if isinstance(e, (KeyboardInterrupt, SystemExit, MemoryError)):
                raise
            out = ("err", e)
        r.flags_outer.append(is_asyncio_mode())
    finally:
        r.closed = True
        R = NULLR
    return r, out


_LOOP = None


def _on_loop_error(loop, ctx):
    R.loop_errors.append(str(ctx.get("message")))


def get_loop():
    """the ONE long-lived loop of this worker"""
    global _LOOP
    if _LOOP is None or _LOOP.is_closed():
        _LOOP = asyncio.new_event_loop()
        _LOOP.set_exception_handler(_on_loop_error)
    return _LOOP


async def _await_outcome(fn, code):
    try:
        return ("ok", await fn.asyncio(code))
    except BaseException as e:
        if isinstance(e, (KeyboardInterrupt, SystemExit, MemoryError, asyncio.CancelledError)):
            raise
        return ("err", e)


async def _driver(r, fn, code, flags, phase2, wdone):
    # the coroutine under test is awaited directly (same context), so a leaked mode flag is visible here
    flags.append(is_asyncio_mode())
    try:
        out = await _await_outcome(fn, code)
    finally:
        flags.append(is_asyncio_mode())
    if phase2:
        # second phase, same coroutine, same context: an unrelated task is created NOW (its context is a copy of this
        # one as the first call left it), then the same program is awaited again and really suspends at least once
        wdone[0] = True
        r.log, r.log2 = [], r.log  # r.log2 = first log for now; swapped back below
        wd2 = [False]
        w2 = asyncio.ensure_future(_watch2(r.flags_watch2, r.watch2_calls, wd2))
        r.pause = True
        try:
            r.out2 = await _await_outcome(fn, code)
        finally:
            r.pause = False
            flags.append(is_asyncio_mode())
            wd2[0] = True
            r.log, r.log2 = r.log2, r.log
        await w2
    return out


async def _watch(flags, done):
    # an unrelated coroutine on the same loop: samples the flag on every loop iteration while the computation runs
    while not done[0]:
        flags.append(is_asyncio_mode())
        await asyncio.sleep(0)
    flags.append(is_asyncio_mode())


async def _watch2(flags, calls, done):
    # unrelated coroutine created after a first .asyncio() call completed in the creating coroutine: it never enters
    # asyncio mode, so the flag must read False and a plain synchronous call of an @asynq() function must work
    n = 0
    while not done[0]:
        flags.append(is_asyncio_mode())
        if n < 2:
            try:
                v = w_probe(n)
                calls.append("ok" if v == ("w", n) else ("value", repr(v)))
            except BaseException as e:
                if isinstance(e, (KeyboardInterrupt, SystemExit, MemoryError, asyncio.CancelledError)):
                    raise
                calls.append(tok(e))
        n += 1
        await asyncio.sleep(0)
    flags.append(is_asyncio_mode())


def run_aio(prog, style, aio, xv=0, phase2=False, max_iters=None):
    """`await fn.asyncio(code)` on the worker's event loop, one loop iteration at a time (bounded).
    Returns (recorder, outcome, problems) where problems lists loop-level anomalies (sig, msg)."""
    global R
    reset_asynq()
    loop = get_loop()
    r = R = Rec(style, aio, "aio", xv)
    problems = []
    if max_iters is None:
        max_iters = 64 + 16 * prog.nstmts + 16 * prog.ntasks
        if phase2:
            max_iters = 2 * max_iters + 16
    out = None
    try:
        r.flags_outer.append(is_asyncio_mode())
        flags = []
        wflags = r.flags_watch
        wdone = [False]
        watcher = loop.create_task(_watch(wflags, wdone))
        main = loop.create_task(_driver(r, _route(r, prog.root), prog.root, flags, phase2, wdone))
        n = 0
        stop = loop.stop
        between = False
        while True:
            loop.call_soon(stop)
            loop.run_forever()
            n += 1
            if is_asyncio_mode():
                between = True
            if main.done():
                break
            if n >= max_iters:
                problems.append(("loop-not-terminating", "the awaited coroutine is not done after %d loop iterations" % n))
                break
        r.iters = n
        wdone[0] = True
        for _ in range(3):
            if watcher.done():
                break
            loop.call_soon(stop)
            loop.run_forever()
        if watcher.done() and not watcher.cancelled() and watcher.exception() is not None:
            problems.append(("harness", "watcher failed: %r" % (watcher.exception(),)))
        r.flags_outer.append(is_asyncio_mode() or between)
        if main.done():
            if main.cancelled():
                out = ("err", asyncio.CancelledError())
            elif main.exception() is not None:
                out = ("err", main.exception())
            else:
                out = main.result()
        else:
            out = ("err", RuntimeError("not finished"))
        r.flags_outer.extend(flags)
        # nothing may be left on the loop
        left = [t for t in asyncio.all_tasks(loop) if not t.done()]
        if left:
            if main.done():
                problems.append(("pending-tasks", "%d asyncio task(s) still pending on the loop after the awaited coroutine finished" % len(left)))
            r.closed = True
            for t in left:
                t.cancel()
            g = asyncio.gather(*left, return_exceptions=True)
            try:
                loop.run_until_complete(g)
            except BaseException:
                pass
            g = None
            left = None
            # one more turn so that callbacks of the cancelled tasks are gone
            loop.call_soon(stop)
            loop.run_forever()
        if loop._ready or loop._scheduled:
            problems.append(("loop-residue", "%d ready / %d scheduled callbacks left on the loop" % (len(loop._ready), len(loop._scheduled))))
            loop._ready.clear()
            del loop._scheduled[:]
        if r.loop_errors:
            problems.append(("loop-exception-handler", "the loop's exception handler was called: %s" % (r.loop_errors[0],)))
    finally:
        r.closed = True
        R = NULLR
    return r, out, problems


# --------------------------------------------------------------------------------------------------
# comparison helpers


def same(a, b):
    """== plus identical container types at every level (and identical dict key order)"""
    c = a.__class__
    if c is not b.__class__:
        return False
    if c is tuple or c is list:
        if len(a) != len(b):
            return False
        for x, y in zip(a, b):
            if not same(x, y):
                return False
        return True
    if c is dict:
        if list(a.keys()) != list(b.keys()):
            return False
        for k in a:
            if not same(a[k], b[k]):
                return False
        return True
    return a == b


def outcome_token(out):
    """("ok", value) | ("err", harness token)"""
    if out[0] == "ok":
        return out
    return ("err", tok(out[1]))


def yields_children(prog):
    """(tid, sid) -> list of child tids yielded together at that yield, in structure order"""
    res = {}

    def struct(s, acc):
        op = s[0]
        if op in ("L", "T"):
            for x in s[1]:
                struct(x, acc)
        elif op == "D":
            for k, x in s[1]:
                struct(x, acc)
        elif op == "c":
            acc.append(s[2].tid)
            task(s[2])

    def block(tid, stmts):
        for st in stmts:
            op = st[0]
            if op == "y":
                acc = []
                struct(st[2], acc)
                res[(tid, st[1])] = acc
            elif op == "try":
                block(tid, st[2])
                block(tid, st[3])
            elif op == "sync":
                task(st[2])

    def task(tc):
        block(tc.tid, tc.stmts)

    task(prog.root)
    return res


def norm(v):
    """values with exception OBJECTS replaced by (kind, type name, normalised args), so that two runs / the reference can
    be compared by type + args instead of identity: HVal(x) -> ("HV", norm(x)); HErr(tag) -> ("X", "HErr", tag); any other
    exception -> ("X", type name)"""
    c = v.__class__
    if c is HVal:
        return ("HV", norm(v.args[0])) if len(v.args) == 1 else ("HV?", norm(v.args))
    if c is tuple:
        return tuple([norm(x) for x in v])
    if c is list:
        return [norm(x) for x in v]
    if c is dict:
        return {k: norm(x) for k, x in v.items()}
    if isinstance(v, BaseException):
        if c is HErr:
            return ("X", "HErr", v.tag) if v.args == (v.tag,) else ("X?", "HErr", norm(v.args))
        return ("X", c.__name__)
    return v


def xv_expected(v):
    """the norm() image of the value the exception-valued variant of a program must produce, from R1's plain value"""
    c = v.__class__
    if c is tuple:
        if v and v[0].__class__ is str:
            if v[0] == "t":
                return ("HV", ("t", v[1], tuple([xv_expected(x) for x in v[2]])))
            if v[0] == "k":
                return ("HV", v)
            if v[0] == "caught":
                t = v[1]
                if t.__class__ is tuple and len(t) == 2 and t[0] == "exc":
                    return ("X", t[1])
                return ("X", "HErr", t)
            raise ValueError(v)
        return tuple([xv_expected(x) for x in v])
    if c is list:
        return [xv_expected(x) for x in v]
    if c is dict:
        return {k: xv_expected(x) for k, x in v.items()}
    return v


def strip_flags(log, xv=0):
    """per-task event sequences without the flag field (values normalised when they may hold exception objects)"""
    per = {}
    for ev in log:
        if xv and ev[0] == "r":
            ev = ("r", ev[1], ev[2], norm(ev[3]), ev[4])
        per.setdefault(ev[1], []).append(ev[:-1])
    return per
