"""PROGX driver shared by the program-exploring checks (worker side).

A job is a dict:
  bases   : list of base program terms
  menu    : deviation menu (list of names from gen.ALL_MENU)
  k       : max number of deviations
  convs   : calling conventions to run each program under
  prio    : priority modes ("steer" explores all schedules; "default"/"equal" run one schedule)
  cats    : violation categories this property judges (others are ignored)
  need    : optional list of features; programs without ALL of them are skipped when ndev>0
  r1      : compare with the sequential reference R1 (outcome, started set, step counts, probes)
  r2      : run the maximal-batching reference machine R2 in lock step (yield-only programs)
  opts    : World keyword options
"""
import json

from . import gen
from . import prog as P
from . import explore as X
from . import world as Wd

MAX_VIOL_PER_JOB = 40
_NO_CRIT = frozenset(["shared", "re", "mk", "iv", "sync", "with:N", "with:Xp", "with:Xr", "flush:new", "flush:nested", "flush:hooknested",
                      "dd", "ddirty", "dbi"])


def feats(prog):
    return sorted(prog.features)


def judge_exec(prog, r, exp, r1, spec, conv, out, r2=None):
    """appends violations of one execution to out['violations']"""
    cats = spec["cats"]
    found = []
    if spec.get("r1", True) and exp is not None:
        if r.outcome != exp:
            found.append(("outcome-mismatch", "outcome %r, sequential evaluation gives %r" % (r.outcome, exp)))
        if r.unfinished:
            found.append(("awaited-not-computed", "the computation ended (%s) but a task it started is still uncomputed" % (r.outcome[0],)))
        if not r.unfinished:
            if r.started != r1.started:
                extra = sorted(r.started - r1.started)
                missing = sorted(r1.started - r.started)
                if extra:
                    found.append(("started-extra", "tasks %s ran although never awaited" % (extra,)))
                if missing:
                    found.append(("started-missing", "awaited tasks %s never ran" % (missing,)))
            else:
                for tid, n in r1.steps.items():
                    if r.steps.get(tid) != n:
                        found.append(("step-count", "task %s ran %s steps, expected %d (one per yield + start)"
                                      % (tid, r.steps.get(tid), n)))
                        break
        if "crit-count" in cats and len(prog.kinds) == 1 and r1.crit is not None and not (prog.features & _NO_CRIT):
            nf = len(r.decisions)
            if nf != r1.crit:
                found.append(("crit-count", "single batch kind: %d flushes, but the longest chain of sequentially dependent requests is %d"
                              % (nf, r1.crit)))
        for sid, val in r1.probes.items():
            got = r.probes.get(sid)
            if val is P.ANY:
                continue
            if got != val:
                found.append(("probe-mismatch", "probe %s read %r, sequential evaluation reads %r" % (sid, got, val)))
                break
        if "probe-mismatch" in cats and not r.unfinished and r.started == r1.started:
            # scoped values as seen at the beginning of EVERY step of every task (no probe statement needed)
            for key, val in r1.auto.items():
                if val is P.ANY:
                    continue
                got = r.auto.get(key)
                if got is not None and got != val:
                    found.append(("probe-mismatch", "task %s, step %d begins with scoped values %r, sequential evaluation has %r"
                                  % (key[0], key[1], got, val)))
                    break
        for tid, c in r.computed.items():
            if tid in r.started and c != 1 and not r.unfinished:
                found.append(("task-not-computed", "task %s started but its completion was announced %d times" % (tid, c)))
                break
    found.extend(r.viol)
    if r2 is not None:
        found.extend(r2)
    for cat, msg in found:
        if cat in cats or cat == "harness":
            if len(out["violations"]) < MAX_VIOL_PER_JOB:
                out["violations"].append({
                    "sig": cat,
                    "msg": msg,
                    "features": feats(prog) + ["conv:" + conv],
                    "case": {"prog": prog.term, "prefix": list(r.schedule), "conv": conv,
                             "opts": spec.get("opts", {}), "spec": {k: spec[k] for k in ("cats", "r1", "r2") if k in spec}},
                })
            out["counters"]["viol:" + cat] = out["counters"].get("viol:" + cat, 0) + 1


def run_spec(job, env, extra_judge=None):
    hb = env["hb"]
    spec = job
    out = {"evals": 0, "states": 0, "transitions": 0, "nontrivial": 0, "violations": [], "samples": [],
           "counters": {}, "sets": {}}
    cnt = out["counters"]
    menu = spec.get("menu", ())
    k = spec.get("k", 0)
    convs = spec.get("convs", ["call"])
    prios = spec.get("prio", ["steer"])
    need = set(spec.get("need", ()))
    opts = spec.get("opts", {})
    use_r2 = spec.get("r2", False)
    idx = 0
    import time
    glob = tuple(tuple(x) for x in spec.get("globals", ()))
    bases = spec.get("bases")
    if bases is None:
        # shape family slice: generated in the worker (cheaper than shipping a million terms)
        import itertools
        sl = spec["shape_slice"]
        lv = spec.get("shape_leaves")
        bases = itertools.islice(gen.shape_programs(sl[2], _tuplify(lv) if lv else None), sl[0], None, sl[1])
    for base in bases:
        base = _tuplify(base)
        if glob:
            base = base[:3] + (tuple(sorted(base[3] + glob)),)
        for term, nd in (gen.deviated(base, menu, k) if k else [(base, 0)]):
            prog = P.compile_prog(term)
            if nd and need and not need.issubset(prog.features):
                continue
            r1, exp = P.r1_eval(prog)
            if r1.unsupported and spec.get("r1", True) and not spec.get("allow_unsupported"):
                exp = None
            cnt["programs"] = cnt.get("programs", 0) + 1
            cnt["programs_dev%d" % nd] = cnt.get("programs_dev%d" % nd, 0) + 1
            outcomes = set()
            multi = [False]
            for conv in convs:
                for pm in prios:
                    idx += 1
                    hb[0] = time.time()
                    hb[2] = idx

                    def on_exec(r, conv=conv):
                        out["evals"] += 1
                        out["transitions"] += r.transitions
                        outcomes.add(repr(r.outcome))
                        if any(len(d[0]) > 1 for d in r.decisions):
                            multi[0] = True
                        r2v = None
                        if use_r2:
                            from . import r2 as R2
                            r2v = R2.lockstep(prog, r)
                        judge_exec(prog, r, exp, r1, spec, conv, out, r2v)
                        if extra_judge is not None:
                            extra_judge(prog, r, exp, r1, spec, conv, out)

                    n, st, capped = X.explore(prog, on_exec, prio_mode=pm, conv=conv, **opts)
                    if idx % 53 == 0:
                        # determinism is checked, not assumed: a fixed slice of programs is run twice
                        a = X.observation(X.execute(prog, (), prio_mode=pm, conv=conv, **opts))
                        b = X.observation(X.execute(prog, (), prio_mode=pm, conv=conv, **opts))
                        cnt["determinism_rechecks"] = cnt.get("determinism_rechecks", 0) + 1
                        if a != b:
                            out["violations"].append({"sig": "harness", "msg": "two executions of the same program and schedule differ: %r vs %r" % (a, b),
                                                      "features": feats(prog), "case": {"prog": prog.term, "prefix": [], "conv": conv, "opts": opts, "spec": {"cats": []}}})
                    out["states"] += st
                    cnt["schedules"] = cnt.get("schedules", 0) + n
                    if capped:
                        cnt["capped"] = cnt.get("capped", 0) + 1
            if multi[0]:
                out["nontrivial"] += 1
                cnt["programs_with_schedule_choice"] = cnt.get("programs_with_schedule_choice", 0) + 1
            if len(outcomes) > 1 and exp is not None:
                if "schedule-disagree" in spec["cats"]:
                    out["violations"].append({
                        "sig": "schedule-disagree",
                        "msg": "different outcomes under different flush orders / conventions: %r" % (sorted(outcomes),),
                        "features": feats(prog),
                        "case": {"prog": prog.term, "prefix": [], "conv": convs[0], "opts": opts,
                                 "spec": {"cats": spec["cats"]}},
                    })
            if len(out["samples"]) < 2 and multi[0] and nd == k:
                out["samples"].append({"program": json.loads(json.dumps(term)), "deviations": nd})
    return out


def _tuplify(x):
    if isinstance(x, list):
        return tuple(_tuplify(y) for y in x)
    if isinstance(x, tuple):
        return tuple(_tuplify(y) for y in x)
    return x


def replay_case(case, env, extra_judge=None):
    term = _tuplify(case["prog"])
    prog = P.compile_prog(term)
    r1, exp = P.r1_eval(prog)
    spec = dict(case.get("spec", {}))
    spec.setdefault("cats", [])
    if r1.unsupported:
        exp = None
    out = {"violations": [], "counters": {}, "evals": 0, "nontrivial": 0, "states": 0, "transitions": 0, "samples": [], "sets": {}}
    opts = case.get("opts", {})
    r = X.execute(prog, tuple(case.get("prefix", ())), conv=case.get("conv", "call"), **opts)
    r2v = None
    if spec.get("r2"):
        from . import r2 as R2
        r2v = R2.lockstep(prog, r)
    judge_exec(prog, r, exp, r1, spec, case.get("conv", "call"), out, r2v)
    if extra_judge is not None:
        extra_judge(prog, r, exp, r1, spec, case.get("conv", "call"), out)
    return out["violations"]


def worker_init(env):
    import gc
    Wd.capture_streams()
    gc.collect()
    gc.freeze()


def chunked(it, n):
    buf = []
    for x in it:
        buf.append(x)
        if len(buf) >= n:
            yield buf
            buf = []
    if buf:
        yield buf


def ladder_jobs(ladder, menu, cats, spec):
    """ladder entries: (max size n, max deviations k, conventions[, spec overrides])"""
    for ent in ladder:
        n, k, convs = ent[0], ent[1], ent[2]
        over = ent[3] if len(ent) > 3 else {}
        chunk = 400 if k == 0 else (6 if k == 1 else 1)
        for size in range(1, n + 1):
            for bases in chunked(gen.base_programs(size), chunk):
                j = {"bases": bases, "menu": menu if k else [], "k": k, "convs": convs, "cats": cats}
                j.update(spec)
                j.update(over)
                yield j
