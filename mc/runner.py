"""Shared runner: build snapshots -> worker processes (one build each) -> verdicts -> evidence.

A check module (mc/checks/cNN.py) provides

    ID        = "C01"
    BUILDS    = ("pure", "compiled")       # builds it wants
    def jobs(tier, seed)      -> iterable of picklable jobs (a job = a chunk of cases)
    def run(job, env)         -> result dict (executed in a worker; env: dict(build=, tier=, only=))
    def finish(acc, tier)     -> (optional) extra coverage keys / extra violations from the merged result

Result dict keys (all optional, merged by the runner):
    evals, states, transitions, nontrivial  : ints (summed)
    counters   : {name: int} (summed)          sets : {name: [hashable,...]} (unioned, reported as counts)
    samples    : list (first few kept)         violations : [ {sig, msg, case, features} ]
A violation's `case` must be enough for `replay(case, env)` of the check module.

Exit code 0: held everywhere explored (known findings print KNOWN-FINDING lines);
1: at least one violation not listed in known_findings.json;  2: harness failure.
"""
import hashlib
import importlib
import json
import multiprocessing as mp
import os
import queue as _queue
import signal
import sys
import time
import traceback

from . import build as _build

VERIF = os.path.dirname(os.path.dirname(os.path.abspath(__file__)))
HANG_SECS = float(os.environ.get("VERIF_HANG_SECS", "60"))
NWORKERS = int(os.environ.get("VERIF_WORKERS", "16"))


def _worker_main(modname, build_kind, build_path, tier, jobq, resq, hb, wid):
    try:
        signal.signal(signal.SIGINT, signal.SIG_IGN)
        _ppid = os.getppid()

        def _orphan_guard():
            import threading as _t
            def loop():
                while True:
                    time.sleep(2)
                    if os.getppid() != _ppid:
                        os._exit(3)
            _t.Thread(target=loop, daemon=True).start()

        _orphan_guard()
        os.environ.setdefault("PYTHONHASHSEED", "0")
        sys.setrecursionlimit(1000)
        _build.activate(build_path, build_kind)
        mod = importlib.import_module(modname)
        env = {"build": build_kind, "tier": tier, "hb": hb, "wid": wid}
        if hasattr(mod, "worker_init"):
            mod.worker_init(env)
        while True:
            item = jobq.get()
            if item is None:
                break
            jid, job = item
            hb[0] = time.time()
            hb[1] = jid
            hb[2] = -1
            try:
                res = mod.run(job, env)
            except BaseException:
                res = {"harness_error": traceback.format_exc()}
            resq.put((wid, jid, build_kind, res))
            hb[1] = -1  # idle between jobs: not a hang
        resq.put((wid, None, build_kind, None))
    except BaseException:
        resq.put((wid, "fatal", build_kind, {"harness_error": traceback.format_exc()}))


class Acc:
    def __init__(self):
        self.n = {"evals": 0, "states": 0, "transitions": 0, "nontrivial": 0}
        self.counters = {}
        self.sets = {}
        self.samples = []
        self.violations = []
        self.harness_errors = []
        self.per_build = {}

    def merge(self, build, res):
        if not res:
            return
        if "harness_error" in res:
            self.harness_errors.append(res["harness_error"])
            return
        pb = self.per_build.setdefault(build, {"evals": 0, "nontrivial": 0, "counters": {}})
        pb["evals"] += res.get("evals", 0)
        pb["nontrivial"] += res.get("nontrivial", 0)
        for k in self.n:
            self.n[k] += res.get(k, 0)
        for k, v in res.get("counters", {}).items():
            pb["counters"][k] = pb["counters"].get(k, 0) + v
            self.counters[k] = self.counters.get(k, 0) + v
        for k, v in res.get("sets", {}).items():
            s = self.sets.setdefault(k, set())
            if len(s) < 2000000:
                s.update(v)
        for s in res.get("samples", []):
            if len(self.samples) < 6:
                self.samples.append(s)
        for v in res.get("violations", []):
            v = dict(v)
            v["build"] = build
            self.violations.append(v)


def load_known():
    p = os.path.join(VERIF, "known_findings.json")
    if not os.path.exists(p):
        return {"findings": [], "fixed": []}
    with open(p) as f:
        return json.load(f)


def match_known(prop, v, known):
    for k in known.get("findings", []):
        if k.get("property") != prop:
            continue
        sigs = k.get("sigs") or [k.get("sig")]
        if v.get("sig") not in sigs:
            continue
        req = set(k.get("requires", []))
        if req and not req.issubset(set(v.get("features", []))):
            continue
        anyof = set(k.get("requires_any", []))
        if anyof and not (anyof & set(v.get("features", []))):
            continue
        forb = set(k.get("forbids", []))
        if forb & set(v.get("features", [])):
            continue
        return k
    return None


def execute(mod, tier, seed, only_builds=None):
    """Runs all jobs of a check; returns (Acc, builds_info)."""
    modname = mod.__name__
    wanted = list(getattr(mod, "BUILDS", ("pure", "compiled")))
    if only_builds:
        wanted = [b for b in wanted if b in only_builds]
    builds = {}
    info = {}
    for b in wanted:
        path, note = _build.get_build(b)
        info[b] = note if path is None or note.startswith("failed") else "ok (%s)" % note
        if path is not None:
            builds[b] = path
    if not builds:
        raise RuntimeError("no usable build: %r" % info)
    ctx = mp.get_context("spawn")
    resq = ctx.Queue()
    workers = []
    nper = max(1, NWORKERS // len(builds))
    if hasattr(mod, "workers_per_build"):
        nper = mod.workers_per_build(tier, nper)
    jobqs = {}
    wid = 0
    for b, path in builds.items():
        jobqs[b] = ctx.Queue(maxsize=nper * 4)
        for _ in range(nper):
            hb = ctx.RawArray("d", 4)
            hb[0] = time.time()
            hb[1] = -1
            p = ctx.Process(
                target=_worker_main,
                args=(modname, b, path, tier, jobqs[b], resq, hb, wid),
                daemon=True,
            )
            p.start()
            workers.append({"p": p, "hb": hb, "build": b, "wid": wid, "done": False})
            wid += 1
    acc = Acc()
    jobs_by_id = {}
    pending = {b: set() for b in builds}
    gen = enumerate(mod.jobs(tier, seed))
    exhausted = False
    queued = {b: [] for b in builds}  # jobs waiting for room in the queue
    live = len(workers)
    sent_stop = False

    def alive_builds():
        return [b for b in builds if any(wk["build"] == b and not wk["done"] for wk in workers)]

    def pump():
        nonlocal exhausted, sent_stop
        while True:
            # a build whose workers are all gone (fatal import error, killed) must not block the other
            live_b = alive_builds()
            for b in builds:
                if b not in live_b:
                    queued[b] = []
                    pending[b].clear()
            # flush backlog first
            progress = False
            for b in builds:
                while queued[b]:
                    try:
                        jobqs[b].put_nowait(queued[b][0])
                    except _queue.Full:
                        break
                    queued[b].pop(0)
                    progress = True
            if any(queued[b] for b in builds):
                return
            if exhausted:
                if not sent_stop:
                    for b in builds:
                        for _ in range(nper):
                            queued[b].append(None)
                    sent_stop = True
                    continue
                return
            try:
                jid, job = next(gen)
            except StopIteration:
                exhausted = True
                continue
            jobs_by_id[jid] = job
            for b in alive_builds():
                queued[b].append((jid, job))
                pending[b].add(jid)

    while live > 0:
        pump()
        try:
            w, jid, b, res = resq.get(timeout=0.5)
        except _queue.Empty:
            now = time.time()
            for wk in workers:
                if wk["done"]:
                    continue
                if not wk["p"].is_alive():
                    wk["done"] = True
                    live -= 1
                    hjid = int(wk["hb"][1])
                    acc.violations.append(
                        {
                            "sig": "worker-died",
                            "msg": "worker process died (exit %s) in job %s case %s"
                            % (wk["p"].exitcode, hjid, int(wk["hb"][2])),
                            "case": {"job": jobs_by_id.get(hjid), "index": int(wk["hb"][2])},
                            "features": ["crash"],
                            "build": wk["build"],
                        }
                    )
                    continue
                if wk["hb"][1] >= 0 and now - wk["hb"][0] > HANG_SECS:
                    hjid = int(wk["hb"][1])
                    wk["p"].kill()
                    wk["done"] = True
                    live -= 1
                    acc.violations.append(
                        {
                            "sig": "hang",
                            "msg": "no progress for %.0fs in job %s case %s (killed)"
                            % (HANG_SECS, hjid, int(wk["hb"][2])),
                            "case": {"job": jobs_by_id.get(hjid), "index": int(wk["hb"][2])},
                            "features": ["hang"],
                            "build": wk["build"],
                        }
                    )
            continue
        if jid is None:
            for wk in workers:
                if wk["wid"] == w and not wk["done"]:
                    wk["done"] = True
                    live -= 1
            continue
        if jid == "fatal":
            acc.merge(b, res)
            for wk in workers:
                if wk["wid"] == w and not wk["done"]:
                    wk["done"] = True
                    live -= 1
            continue
        acc.merge(b, res)
        pending[b].discard(jid)
        if all(jid not in pending[bb] for bb in builds):
            jobs_by_id.pop(jid, None)
    for wk in workers:
        wk["p"].join(timeout=5)
        if wk["p"].is_alive():
            wk["p"].kill()
    for q in list(jobqs.values()) + [resq]:
        try:
            q.cancel_join_thread()
            q.close()
        except Exception:
            pass
    return acc, info


def write_replay(prop, v):
    d = os.environ.get("VERIF_REPLAY_DIR") or os.path.join(VERIF, "replays")
    os.makedirs(d, exist_ok=True)
    blob = json.dumps(
        {"property": prop, "build": v.get("build"), "sig": v.get("sig"), "msg": v.get("msg"),
         "features": v.get("features", []), "case": v.get("case")},
        sort_keys=True, indent=1, default=repr,
    )
    dig = hashlib.sha1(blob.encode()).hexdigest()[:12]
    p = os.path.join(d, "%s-%s.json" % (prop, dig))
    with open(p, "w") as f:
        f.write(blob + "\n")
    return p


def main(argv=None):
    argv = list(sys.argv[1:] if argv is None else argv)
    if not argv:
        print("usage: check <ID> [quick|thorough] [--replay file]")
        return 2
    prop = argv[0].upper()
    tier = os.environ.get("VERIF_TIER", "quick")
    replay = None
    i = 1
    while i < len(argv):
        if argv[i] in ("quick", "thorough"):
            tier = argv[i]
        elif argv[i] == "--replay":
            replay = argv[i + 1]
            i += 1
        i += 1
    seed = int(os.environ.get("VERIF_SEED", "0") or 0)
    # the parent only generates jobs, but check modules import harness modules that import asynq:
    # make sure that is the snapshot of the working tree, never /repo's stale binaries
    ppath, pnote = _build.get_build("pure")
    if ppath is None:
        print("HARNESS-ERROR property=%s: cannot snapshot %s: %s" % (prop, _build.REPO, pnote))
        return 2
    _build.activate(ppath, "pure")
    mod = importlib.import_module("mc.checks.%s" % prop.lower())
    if replay:
        return do_replay(mod, prop, replay)
    t0 = time.time()
    try:
        acc, info = execute(mod, tier, seed)
    except Exception:
        traceback.print_exc()
        print("HARNESS-ERROR property=%s" % prop)
        return 2
    extra = {}
    if hasattr(mod, "finish"):
        extra = mod.finish(acc, tier) or {}
    wall = time.time() - t0
    known = load_known()
    new, seen_known = {}, {}
    for v in acc.violations:
        if v.get("sig") == "harness":
            # a failure of the machinery itself (non-determinism, bookkeeping mismatch): never a verdict on asynq
            acc.harness_errors.append("[%s] %s" % (v.get("build"), v.get("msg")))
            continue
        k = match_known(prop, v, known)
        if k is not None:
            seen_known.setdefault(k["id"], [k, 0])[1] += 1
        else:
            key = (v.get("sig"), v.get("build"))
            new.setdefault(key, []).append(v)
    for kid, (k, n) in sorted(seen_known.items()):
        print("KNOWN-FINDING: property=%s %s: %s (%d executions)" % (prop, kid, k["description"], n))
    rc = 0
    replays = []
    for key, vs in sorted(new.items(), key=lambda kv: str(kv[0])):
        vs.sort(key=lambda v: len(json.dumps(v.get("case"), default=repr)))
        p = write_replay(prop, vs[0])
        replays.append(p)
        print("VIOLATION property=%s replay=%s" % (prop, p))
        print("   [%s/%s] %s  (%d executions)" % (vs[0].get("build"), vs[0].get("sig"), vs[0].get("msg"), len(vs)))
        rc = 1
    if acc.harness_errors:
        print("HARNESS-ERROR property=%s (%d)\n%s" % (prop, len(acc.harness_errors), acc.harness_errors[0]))
        rc = rc or 2
    cov = {
        "states": acc.n["states"],
        "transitions": acc.n["transitions"],
        "traces_validated_against_impl": acc.n["evals"],
        "evaluations": acc.n["evals"],
        "distinct_nontrivial": max([d["nontrivial"] for d in acc.per_build.values()] or [0]),
        "rule": getattr(mod, "RULE", ""),
        "samples": acc.samples or ["<none>"],
        "exhaustive": not acc.harness_errors,
        "builds": info,
        "evaluations_per_build": {b: d["evals"] for b, d in acc.per_build.items()},
        "counters_per_build": {b: dict(sorted(d["counters"].items())) for b, d in acc.per_build.items()},
        "distinct": {k: len(s) for k, s in sorted(acc.sets.items())},
        "known_findings_seen": {kid: n for kid, (k, n) in seen_known.items()},
        "caps_hit": [],
        "explanation": getattr(mod, "EXPLANATION", ""),
    }
    cov.update(extra)
    ev = {
        "property_id": prop,
        "tier": tier,
        "seed": seed,
        "level": "model_checking",
        "coverage": cov,
        "assumptions": list(getattr(mod, "ASSUMPTIONS", [])),
        "wall_s": round(wall, 2),
        "violations": sum(len(v) for v in new.values()),
    }
    evdir = os.environ.get("VERIF_EVIDENCE_DIR") or os.path.join(VERIF, "evidence")
    os.makedirs(evdir, exist_ok=True)
    with open(os.path.join(evdir, "%s.json" % prop), "w") as f:
        json.dump(ev, f, indent=1, sort_keys=True, default=repr)
        f.write("\n")
    print(
        "%s %s: %s evals=%d states=%d transitions=%d nontrivial=%d wall=%.1fs builds=%s"
        % (prop, tier, "OK" if rc == 0 else "FAIL", acc.n["evals"], acc.n["states"],
           acc.n["transitions"], acc.n["nontrivial"], wall, info)
    )
    if rc == 0 and acc.n["evals"] == 0:
        print("HARNESS-ERROR property=%s: nothing explored" % prop)
        rc = 2
    return rc


def do_replay(mod, prop, path):
    with open(path) as f:
        r = json.load(f)
    b = r.get("build") or "pure"
    bp, note = _build.get_build(b)
    if bp is None:
        print("build failed:", note)
        return 2
    _build.activate(bp, b)
    if hasattr(mod, "worker_init"):
        mod.worker_init({"build": b, "tier": "quick", "hb": [0, 0, 0, 0], "wid": 0})
    vs = mod.replay(r["case"], {"build": b, "tier": "quick", "hb": [0, 0, 0, 0], "wid": 0})
    sys.stdout, sys.stderr = sys.__stdout__, sys.__stderr__
    if vs:
        for v in vs:
            print("VIOLATION property=%s replay=%s" % (prop, path))
            print("   [%s/%s] %s" % (b, v.get("sig"), v.get("msg")))
        return 1
    print("replay: no violation reproduced")
    return 0
