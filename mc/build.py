"""Snapshot builds of the *current working tree* of /repo (never import from /repo itself:
its git-ignored stale *.so files shadow the .py sources).

pure build     : asynq/*.py (+pxd/pyi) copied to a scratch dir  -> imported as plain Python
compiled build : second scratch copy, `setup.py build_ext --inplace`  -> Cython .so

Both are content addressed (sha of the source files) under CACHE so that the 20 checks of one
run share one compile; nothing depends on the cache being present.  Cache keeps at most
MAX_CACHE entries; scratch used while building is removed.
"""
import hashlib
import os
import shutil
import subprocess
import sys
import tempfile
import time

REPO = os.environ.get("VERIF_REPO", "/repo")
CACHE = os.environ.get("VERIF_CACHE", "/var/tmp/asynq-verif-cache")
PY = "/venv/bin/python"
MAX_CACHE = 12
MIN_AGE = 3600  # never prune an entry used within the last hour (another check may be importing from it)


def _source_files(repo):
    out = []
    pkg = os.path.join(repo, "asynq")
    for root, dirs, files in os.walk(pkg):
        dirs[:] = sorted(d for d in dirs if d != "__pycache__")
        for f in sorted(files):
            if f.endswith((".py", ".pxd", ".pyi", ".typed")):
                out.append(os.path.join(root, f))
    for f in ("setup.py", "README.rst", "pyproject.toml"):
        p = os.path.join(repo, f)
        if os.path.exists(p):
            out.append(p)
    return out


def tree_hash(repo=None):
    repo = repo or REPO
    h = hashlib.sha256()
    for p in _source_files(repo):
        h.update(os.path.relpath(p, repo).encode())
        h.update(b"\0")
        with open(p, "rb") as f:
            h.update(f.read())
        h.update(b"\0")
    return h.hexdigest()[:20]


def _copy_sources(repo, dest):
    for p in _source_files(repo):
        rel = os.path.relpath(p, repo)
        d = os.path.join(dest, rel)
        os.makedirs(os.path.dirname(d), exist_ok=True)
        shutil.copy2(p, d)


def _prune_cache():
    try:
        ents = [os.path.join(CACHE, e) for e in os.listdir(CACHE)]
    except OSError:
        return
    ents = [e for e in ents if os.path.isdir(e) and not os.path.basename(e).startswith("tmp")]
    ents.sort(key=lambda e: os.path.getmtime(e))
    now = time.time()
    for e in ents[:-MAX_CACHE]:
        if now - os.path.getmtime(e) > MIN_AGE:
            shutil.rmtree(e, ignore_errors=True)
    # stale tmp dirs (older than 1h)
    for e in os.listdir(CACHE):
        p = os.path.join(CACHE, e)
        if e.startswith("tmp") and time.time() - os.path.getmtime(p) > 3600:
            shutil.rmtree(p, ignore_errors=True)


def get_build(kind, repo=None, log=None):
    """Returns (path, note). path is a directory to put on sys.path, or None when the build failed
    (note then explains why).  kind in {"pure", "compiled"}."""
    repo = repo or REPO
    sha = tree_hash(repo)
    os.makedirs(CACHE, exist_ok=True)
    final = os.path.join(CACHE, "%s-%s" % (sha, kind))
    if os.path.exists(os.path.join(final, ".ok")):
        os.utime(final, None)
        return final, "cached"
    if os.path.exists(os.path.join(final, ".failed")):
        with open(os.path.join(final, ".failed")) as f:
            return None, "failed: " + f.read()[-2000:]
    tmp = tempfile.mkdtemp(prefix="tmp-%s-%s-" % (sha, kind), dir=CACHE)
    note = "built"
    try:
        _copy_sources(repo, tmp)
        if kind == "compiled":
            t0 = time.time()
            r = subprocess.run(
                [PY, "setup.py", "build_ext", "--inplace", "-j", "16"],
                cwd=tmp, stdout=subprocess.PIPE, stderr=subprocess.STDOUT, text=True,
                env=dict(os.environ, PYTHONDONTWRITEBYTECODE="1"),
            )
            shutil.rmtree(os.path.join(tmp, "build"), ignore_errors=True)
            for f in os.listdir(os.path.join(tmp, "asynq")):
                if f.endswith((".c", ".h")):
                    os.unlink(os.path.join(tmp, "asynq", f))
            if r.returncode != 0:
                for f in os.listdir(os.path.join(tmp, "asynq")):
                    if f.endswith(".so"):
                        os.unlink(os.path.join(tmp, "asynq", f))
                with open(os.path.join(tmp, ".failed"), "w") as f:
                    f.write(r.stdout[-4000:])
                note = "failed: " + r.stdout[-2000:]
            else:
                note = "built in %.1fs" % (time.time() - t0)
        if not note.startswith("failed"):
            open(os.path.join(tmp, ".ok"), "w").close()
        try:
            os.rename(tmp, final)
        except OSError:
            # somebody else won the race
            shutil.rmtree(tmp, ignore_errors=True)
        _prune_cache()
        if note.startswith("failed"):
            return None, note
        return final, note
    except BaseException:
        shutil.rmtree(tmp, ignore_errors=True)
        raise


def activate(path, kind):
    """Put a build on sys.path and assert that `import asynq` really uses it."""
    sys.path.insert(0, path)
    for m in list(sys.modules):
        if m == "asynq" or m.startswith("asynq."):
            del sys.modules[m]
    import asynq
    import asynq.scheduler as s

    f = os.path.realpath(s.__file__)
    assert f.startswith(os.path.realpath(path)), (f, path)
    if kind == "compiled":
        assert f.endswith(".so"), f
    else:
        assert f.endswith(".py"), f
    return asynq


if __name__ == "__main__":
    for k in sys.argv[1:] or ["pure", "compiled"]:
        print(k, get_build(k))
