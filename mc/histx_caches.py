"""HISTX machinery for C13: explicit-state breadth-first search over call histories on the REAL cache
decorators of asynq.tools (alru_cache, acached_per_instance, alazy_constant), compared call by call with
boring reference caches written in plain Python (OrderedDict LRU / dict per instance / (value, time) cell).

Import only after mc.build.activate() (imports asynq at module top).

A configuration (JSON-able dict) selects one decorated target:

  {"fam": "alru",  "target": "function"|"method", "maxsize": 1..3, "key": "default"|"norm"|"coarse", "body": "imm"|"block"}
  {"fam": "alru",  "target": "function", "sig": "v"|"r", "maxsize": .., "key": "default", "body": ..}
        var-keyword signature classes v(a, b=0, **opts) and r(a, *rest, **opts): extra keywords (and extra positionals)
        are part of the normalised arguments; calls only (no together / re-entry operations)
  {"fam": "acpi",  "sig": "abk", "body": ..}   per-instance method w(self, a, b=0, **opts), same menu as v
  {"fam": "acpi",  "sig": "ab"|"ac"|"abc", "body": "imm"|"block"}     ("abc" = p(self, a, b=2, *, c=0), thorough tier only)
  {"fam": "alazy", "ttl": 0|5, "body": "imm"|"block" [, "start": first clock value (default 1000000)]}

  plus "pair": true on any of them: ONE decorator object (the result of alru_cache(...), acached_per_instance(),
  alazy_constant(ttl)) is applied to TWO functions / methods (f and g, m and k, z and y) whose calls are interleaved
  in the histories; the reference keeps one independent cache per decorated function.  Pair configurations use a
  reduced spelling menu (x(a), x(a, b=1), x(a=a)); the full menu is covered by the single-function configurations.

Besides single completed calls the operation tables contain
  * "together[X | Y]"  (blocking body kind only): one @asynq driver task yields [fn.asynq(X...), fn.asynq(Y...)], so both
    calls are in flight across the same batch flush (same key / different keys / different instances / the two functions
    of a pair configuration).  Reference: both look the cache up before either stores (hit = stored value, no body run;
    miss = own fresh value); two misses of the SAME key may run the body once or twice; afterwards every value computed
    is stored (LRU: the order of the two look-ups and of the two stores is left open, the reference adopts the
    permitted order that the real cache shows) and later calls must hit.
  * "X, whose body synchronously calls Y"  (both body kinds): the body of X re-enters the cached function with another
    key before it returns; reference = call Y completed inside the miss of X.

A history is a tuple of indices into the configuration's operation table.  Every history is executed on fresh
real objects (fresh @asynq function, fresh decorator, fresh instances, fresh scheduler); the reference runs in
lock step.  Canonical state = (reference cache state, real cache content read from the decorator's closure /
__acached_per_instance_cache__ / wrapper attributes, body-run log length [, harness flags]).
"""
import gc
import inspect
import time
import weakref
from collections import OrderedDict

import asynq.scheduler as _sched
import asynq.tools as _tools
from asynq import asynq as _asynq, BatchBase, BatchItemBase

MAX_VIOL_PER_JOB = 40

# designated arguments that make the body raise
RAISE_A, RAISE_2ND = 2, 1
B_DEFAULT, B_OTHER = 2, 1
C_DEFAULT, C_OTHER = 0, 1
A_VALUES = (1, 2)
CLOCK_START = 1000000
CLOCK_STEPS = (0, 4, 6)


class HErr(Exception):
    """the body's own exception; args[0] is the body-run record"""


class World(object):
    __slots__ = ("runs", "block", "flushes", "active", "armed", "now", "bad", "reenter", "inner")

    def __init__(self, block, start=CLOCK_START):
        self.runs = []  # body-run log
        self.block = block
        self.flushes = 0
        self.active = None  # current harness batch
        self.armed = False  # alazy: next body run raises
        self.now = start
        self.bad = []  # harness inconsistencies
        self.reenter = None  # thunk the next body run calls synchronously (re-entrant body)
        self.inner = None  # outcome of that nested call


def _reenter(w):
    r = w.reenter
    w.reenter = None
    r()


CUR = None  # the world of the history being executed


def _clock():
    return CUR.now


class CBatch(BatchBase):
    def __init__(self, w):
        BatchBase.__init__(self)
        self.w = w

    def _try_switch_active_batch(self):
        if self.w.active is self:
            self.w.active = None

    def _flush(self):
        self.w.flushes += 1
        for it in self.items:
            it.set_value(("item", it.tag))


class CItem(BatchItemBase):
    def __init__(self, w, tag):
        b = w.active
        if b is None:
            b = w.active = CBatch(w)
        BatchItemBase.__init__(self, b)
        self.tag = tag


# --------------------------------------------------------------------------------------------------
# bodies (module level; decorated afresh with @asynq() for every history)


def f_imm(a, b=2, *, c=0):
    rec = ("f", a, b, c)
    w = CUR
    w.runs.append(rec)
    if w.reenter is not None:
        _reenter(w)
    if a == RAISE_A and b == RAISE_2ND:
        raise HErr(rec)
    return rec


def f_block(a, b=2, *, c=0):
    w = CUR
    rec = ("f", a, b, c)
    w.runs.append(rec)
    if w.reenter is not None:
        _reenter(w)
    got = yield CItem(w, rec)
    if got != ("item", rec):
        w.bad.append("batch item delivered %r" % (got,))
    if a == RAISE_A and b == RAISE_2ND:
        raise HErr(rec)
    return rec


def m_imm(self, a, b=2):
    rec = ("m", self.slot, a, b)
    w = CUR
    w.runs.append(rec)
    if w.reenter is not None:
        _reenter(w)
    if a == RAISE_A and b == RAISE_2ND:
        raise HErr(rec)
    return rec


def m_block(self, a, b=2):
    w = CUR
    rec = ("m", self.slot, a, b)
    w.runs.append(rec)
    if w.reenter is not None:
        _reenter(w)
    got = yield CItem(w, rec)
    if got != ("item", rec):
        w.bad.append("batch item delivered %r" % (got,))
    if a == RAISE_A and b == RAISE_2ND:
        raise HErr(rec)
    return rec


def n_imm(self, a, *, c=0):
    rec = ("n", self.slot, a, c)
    w = CUR
    w.runs.append(rec)
    if w.reenter is not None:
        _reenter(w)
    if a == RAISE_A and c == RAISE_2ND:
        raise HErr(rec)
    return rec


def n_block(self, a, *, c=0):
    w = CUR
    rec = ("n", self.slot, a, c)
    w.runs.append(rec)
    if w.reenter is not None:
        _reenter(w)
    got = yield CItem(w, rec)
    if got != ("item", rec):
        w.bad.append("batch item delivered %r" % (got,))
    if a == RAISE_A and c == RAISE_2ND:
        raise HErr(rec)
    return rec


def p_imm(self, a, b=2, *, c=0):
    rec = ("p", self.slot, a, b, c)
    w = CUR
    w.runs.append(rec)
    if w.reenter is not None:
        _reenter(w)
    if a == RAISE_A and b == RAISE_2ND:
        raise HErr(rec)
    return rec


def p_block(self, a, b=2, *, c=0):
    w = CUR
    rec = ("p", self.slot, a, b, c)
    w.runs.append(rec)
    if w.reenter is not None:
        _reenter(w)
    got = yield CItem(w, rec)
    if got != ("item", rec):
        w.bad.append("batch item delivered %r" % (got,))
    if a == RAISE_A and b == RAISE_2ND:
        raise HErr(rec)
    return rec


def z_imm():
    w = CUR
    rec = ("z", len(w.runs) + 1)
    w.runs.append(rec)
    if w.armed:
        w.armed = False
        raise HErr(rec)
    return rec


def z_block():
    w = CUR
    rec = ("z", len(w.runs) + 1)
    w.runs.append(rec)
    got = yield CItem(w, rec)
    if got != ("item", rec):
        w.bad.append("batch item delivered %r" % (got,))
    if w.armed:
        w.armed = False
        raise HErr(rec)
    return rec


def _twin_f(tag):
    def imm(a, b=2, *, c=0):
        rec = (tag, a, b, c)
        w = CUR
        w.runs.append(rec)
        if w.reenter is not None:
            _reenter(w)
        if a == RAISE_A and b == RAISE_2ND:
            raise HErr(rec)
        return rec

    def block(a, b=2, *, c=0):
        w = CUR
        rec = (tag, a, b, c)
        w.runs.append(rec)
        if w.reenter is not None:
            _reenter(w)
        got = yield CItem(w, rec)
        if got != ("item", rec):
            w.bad.append("batch item delivered %r" % (got,))
        if a == RAISE_A and b == RAISE_2ND:
            raise HErr(rec)
        return rec

    imm.__name__ = block.__name__ = imm.__qualname__ = block.__qualname__ = tag
    return imm, block


def _twin_m(tag):
    def imm(self, a, b=2):
        rec = (tag, self.slot, a, b)
        w = CUR
        w.runs.append(rec)
        if w.reenter is not None:
            _reenter(w)
        if a == RAISE_A and b == RAISE_2ND:
            raise HErr(rec)
        return rec

    def block(self, a, b=2):
        w = CUR
        rec = (tag, self.slot, a, b)
        w.runs.append(rec)
        if w.reenter is not None:
            _reenter(w)
        got = yield CItem(w, rec)
        if got != ("item", rec):
            w.bad.append("batch item delivered %r" % (got,))
        if a == RAISE_A and b == RAISE_2ND:
            raise HErr(rec)
        return rec

    imm.__name__ = block.__name__ = imm.__qualname__ = block.__qualname__ = tag
    return imm, block


def _twin_z(tag):
    def imm():
        w = CUR
        rec = (tag, len(w.runs) + 1)
        w.runs.append(rec)
        if w.armed:
            w.armed = False
            raise HErr(rec)
        return rec

    def block():
        w = CUR
        rec = (tag, len(w.runs) + 1)
        w.runs.append(rec)
        got = yield CItem(w, rec)
        if got != ("item", rec):
            w.bad.append("batch item delivered %r" % (got,))
        if w.armed:
            w.armed = False
            raise HErr(rec)
        return rec

    imm.__name__ = block.__name__ = imm.__qualname__ = block.__qualname__ = tag
    return imm, block


def _opts(d):
    return tuple(sorted(d.items()))


def _var_bodies():
    """bodies of the var-keyword signature classes; the run record shows every argument the body received"""
    def v_imm(a, b=0, **opts):
        rec = ("v", a, b, _opts(opts))
        w = CUR
        w.runs.append(rec)
        if a == RAISE_A and b == RAISE_2ND:
            raise HErr(rec)
        return rec

    def v_block(a, b=0, **opts):
        w = CUR
        rec = ("v", a, b, _opts(opts))
        w.runs.append(rec)
        got = yield CItem(w, rec)
        if got != ("item", rec):
            w.bad.append("batch item delivered %r" % (got,))
        if a == RAISE_A and b == RAISE_2ND:
            raise HErr(rec)
        return rec

    def w_imm(self, a, b=0, **opts):
        rec = ("w", self.slot, a, b, _opts(opts))
        w = CUR
        w.runs.append(rec)
        if a == RAISE_A and b == RAISE_2ND:
            raise HErr(rec)
        return rec

    def w_block(self, a, b=0, **opts):
        w = CUR
        rec = ("w", self.slot, a, b, _opts(opts))
        w.runs.append(rec)
        got = yield CItem(w, rec)
        if got != ("item", rec):
            w.bad.append("batch item delivered %r" % (got,))
        if a == RAISE_A and b == RAISE_2ND:
            raise HErr(rec)
        return rec

    def r_imm(a, *rest, **opts):
        rec = ("r", a, rest, _opts(opts))
        w = CUR
        w.runs.append(rec)
        if a == RAISE_A and rest[:1] == (RAISE_2ND,):
            raise HErr(rec)
        return rec

    def r_block(a, *rest, **opts):
        w = CUR
        rec = ("r", a, rest, _opts(opts))
        w.runs.append(rec)
        got = yield CItem(w, rec)
        if got != ("item", rec):
            w.bad.append("batch item delivered %r" % (got,))
        if a == RAISE_A and rest[:1] == (RAISE_2ND,):
            raise HErr(rec)
        return rec

    out = {}
    for fn in (v_imm, v_block, w_imm, w_block, r_imm, r_block):
        tag, kind = fn.__name__.split("_")
        fn.__name__ = fn.__qualname__ = tag
        out[(tag, kind)] = fn
    return out


VAR_SIGS = ("v", "w", "r")

# the second function of a "pair" configuration (same signature as its twin, values tagged with its own name)
TWIN = {"f": "g", "m": "k", "z": "y"}
g_imm, g_block = _twin_f("g")
k_imm, k_block = _twin_m("k")
y_imm, y_block = _twin_z("y")

BODIES = dict(_var_bodies())
BODIES.update({("g", "imm"): g_imm, ("g", "block"): g_block, ("k", "imm"): k_imm, ("k", "block"): k_block,
          ("y", "imm"): y_imm, ("y", "block"): y_block,
          ("f", "imm"): f_imm, ("f", "block"): f_block, ("m", "imm"): m_imm, ("m", "block"): m_block,
          ("n", "imm"): n_imm, ("n", "block"): n_block, ("p", "imm"): p_imm, ("p", "block"): p_block,
          ("z", "imm"): z_imm, ("z", "block"): z_block})


class HostBase(object):
    def __init__(self, slot):
        self.slot = slot

    def __repr__(self):
        return "I%d" % self.slot


class SelfTok(object):
    """stands for instance `slot` when the reference evaluates a key function"""

    __slots__ = ("slot",)

    def __init__(self, slot):
        self.slot = slot


# custom key functions (receive the raw (args, kwargs) of the call, as alru_cache documents)


def kf_f_norm(args, kwargs):
    a = args[0] if len(args) > 0 else kwargs["a"]
    b = args[1] if len(args) > 1 else kwargs.get("b", 2)
    c = kwargs.get("c", 0)
    return "f|%s|%s|%s" % (a, b, c)


def kf_f_coarse(args, kwargs):
    # "the function takes some arguments that don't affect the result": c is not part of the key
    a = args[0] if len(args) > 0 else kwargs["a"]
    b = args[1] if len(args) > 1 else kwargs.get("b", 2)
    return ("k", a, b)


def kf_m_norm(args, kwargs):
    a = args[1] if len(args) > 1 else kwargs["a"]
    b = args[2] if len(args) > 2 else kwargs.get("b", 2)
    return "m|%s|%s|%s" % (args[0].slot, a, b)


def kf_m_coarse(args, kwargs):
    # b is not part of the key
    a = args[1] if len(args) > 1 else kwargs["a"]
    return ("k", args[0].slot, a)


KEYFNS = {("f", "norm"): kf_f_norm, ("f", "coarse"): kf_f_coarse, ("m", "norm"): kf_m_norm, ("m", "coarse"): kf_m_coarse}


# --------------------------------------------------------------------------------------------------
# operation tables


class Op(object):
    __slots__ = ("kind", "form", "slot", "args", "kwargs", "norm", "names", "key", "text", "feats", "raises",
                 "value", "shape", "step", "unit", "tag", "sub")

    def __init__(self, kind):
        self.kind = kind
        self.form = 0
        self.slot = None
        self.args = ()
        self.kwargs = {}
        self.norm = ()
        self.names = ()
        self.key = None
        self.text = ""
        self.feats = []
        self.raises = False
        self.value = None
        self.shape = None
        self.step = 0
        self.unit = 0
        self.tag = None
        self.sub = ()


FORMS = ("sync", "asynq-value")


def _spellings(sig):
    """every way of writing the call, simplest first: (args, kwargs) without self"""
    out = []
    if sig in ("v", "w"):
        # x(a, b=0, **opts): all named parameters positional (with and without extra keywords), b defaulted / spelled
        # by keyword with an extra keyword, a by keyword, and the other value of b (a=2, b=1 raises)
        for a in A_VALUES:
            if sig == "w" and a != A_VALUES[0]:
                # the per-instance cache is unbounded (2 instances x every key): the second value of a only plain
                out += [((a,), {}), ((a, 1), {})]
                continue
            out += [((a,), {}), ((a, 0), {}), ((a, 0), {"x": 1}), ((a, 0), {"x": 2}), ((a,), {"x": 1}),
                    ((a,), {"b": 0, "x": 1}), ((), {"a": a, "x": 1}), ((a, 1), {})]
        return out
    if sig == "r":
        # x(a, *rest, **opts): extra positionals and extra keywords (a=2 with rest[0]=1 raises)
        for a in A_VALUES:
            out += [((a,), {}), ((a, 1), {}), ((a, 1, 2), {}), ((a,), {"x": 1}), ((a, 1), {"x": 1}), ((a, 1), {"x": 2}),
                    ((), {"a": a}), ((), {"a": a, "x": 1})]
        return out
    for a_kw in (False, True):
        for a in A_VALUES:
            if sig in ("f", "m", "p"):
                bforms = [None]
                if not a_kw:
                    bforms += [("pos", B_DEFAULT), ("pos", B_OTHER)]
                bforms += [("kw", B_DEFAULT), ("kw", B_OTHER)]
            else:
                bforms = [None]
            if sig in ("f", "p"):
                cforms = [None, C_OTHER]
            elif sig == "n":
                cforms = [None, C_DEFAULT, C_OTHER]
            else:
                cforms = [None]
            for bf in bforms:
                for cf in cforms:
                    args, kwargs = [], {}
                    if a_kw:
                        kwargs["a"] = a
                    else:
                        args.append(a)
                    if bf is not None:
                        if bf[0] == "pos":
                            args.append(bf[1])
                        else:
                            kwargs["b"] = bf[1]
                    if cf is not None:
                        kwargs["c"] = cf
                    out.append((tuple(args), kwargs))
    return out


def _reduced(args, kwargs):
    """the spelling menu of pair configurations: x(a), x(a, b=1), x(a=a)"""
    if len(args) == 1:
        return not kwargs or kwargs == {"b": B_OTHER}
    return not args and list(kwargs) == ["a"]


def _call_ops(sig, slots, refkey, tag=None, unit=0, reduced=False, forms=(0, 1)):
    """call operations for body signature `sig` ("f" function, "m"/"n"/"p" methods) on the given instance slots;
    `tag` names the decorated function when it is not the signature's own (the twin of a pair configuration)"""
    body = BODIES[(sig, "imm")]
    s = inspect.signature(body)
    params = list(s.parameters)
    ops = []
    tag = tag or sig
    for slot in slots:
        for args, kwargs in _spellings(sig):
            if reduced and not _reduced(args, kwargs):
                continue
            if reduced == "tiny" and not (args[:1] == (1,) or kwargs.get("a") == 1 or (args[:1] == (2,) and kwargs)):
                continue  # x(1), x(1, b=1), x(a=1) and the raising x(2, b=1)
            for form in forms:
                op = Op("call")
                op.unit = unit
                op.tag = tag
                op.form = form
                op.slot = slot
                op.args = args
                op.kwargs = kwargs
                # normalised arguments by the interpreter's own binding rules (independent of the code under test)
                if slot is None:
                    ba = s.bind(*args, **kwargs)
                else:
                    ba = s.bind(slot, *args, **kwargs)
                ba.apply_defaults()
                op.names = tuple(params)
                # (a **opts mapping becomes its sorted item tuple, *rest is a tuple already: the full argument mapping)
                op.norm = tuple(_opts(ba.arguments[p]) if isinstance(ba.arguments[p], dict) else ba.arguments[p] for p in params)
                op.value = (tag,) + op.norm
                if "b" in ba.arguments:
                    second = ba.arguments["b"]
                elif "c" in ba.arguments:
                    second = ba.arguments["c"]
                else:
                    second = ba.arguments["rest"][0] if ba.arguments["rest"] else None
                op.raises = ba.arguments["a"] == RAISE_A and second == RAISE_2ND
                op.key = refkey(op)
                op.shape = (len(args), tuple(sorted(kwargs)))
                spelled = ", ".join([repr(x) for x in args] + ["%s=%r" % kv for kv in kwargs.items()])
                if slot is None:
                    op.text = "%s(%s) [%s]" % (tag, spelled, FORMS[form])
                else:
                    op.text = "I%d.%s(%s) [%s]" % (slot, tag, spelled, FORMS[form])
                ft = ["form:" + FORMS[form], "npos:%d" % len(args)]
                ft += ["kw:" + k for k in sorted(kwargs)]
                if kwargs and args:
                    ft.append("mixed-spelling")
                if kwargs:
                    ft.append("kw-spelling")
                else:
                    ft.append("positional-spelling")
                if sig in VAR_SIGS:
                    if any(k not in params for k in kwargs):
                        ft.append("extra-keyword")
                    if sig == "r" and len(args) > 1:
                        ft.append("extra-positional")
                    if sig != "r" and ((len(args) > 1 and args[1] == 0) or kwargs.get("b") == 0):
                        ft.append("default-passed")
                    if sig != "r" and len(args) == 2:
                        ft.append("all-named-positional")
                elif (len(args) > 1 and args[1] == B_DEFAULT) or kwargs.get("b") == B_DEFAULT or \
                        (sig == "n" and kwargs.get("c") == C_DEFAULT):
                    ft.append("default-passed")
                if "c" in kwargs:
                    ft.append("kwonly-passed")
                if op.raises:
                    ft.append("raising-body")
                op.feats = ft
                ops.append(op)
    return ops


@_asynq()
def _safe(target, args, kwargs):
    """one of the calls issued together: its own outcome, so that a raising twin does not hide it"""
    try:
        v = yield target.asynq(*args, **kwargs)
    except BaseException as e:
        if isinstance(e, (KeyboardInterrupt, SystemExit, MemoryError, GeneratorExit)):
            raise
        return _outcome(e)
    return ("ok", v)


@_asynq()
def _together(calls):
    """the driver task of a "together" operation: both calls in flight across the same flush"""
    return (yield [_safe.asynq(t, a, k) for t, a, k in calls])


def _spelled(op):
    return op.text.rsplit(" [", 1)[0]


def _pick(ops, unit, slot, args, kwargs):
    for op in ops:
        if op.kind == "call" and op.form == 0 and op.unit == unit and op.slot == slot and op.args == args and op.kwargs == kwargs:
            return op
    return None


def _overlap_menu(ops, unit, slot, second):
    """the calls offered for together / re-entry operations: x(1), x(2), x(1, <2nd>=1), x(a=1), x(2, <2nd>=1) (raises)"""
    menu = [((1,), {}), ((2,), {}), ((1,), {second: 1}), ((), {"a": 1}), ((2,), {second: 1})]
    return [o for o in (_pick(ops, unit, slot, a, k) for a, k in menu) if o is not None]


def _both_op(a, b):
    op = Op("both")
    op.sub = (a, b)
    op.text = "together[%s | %s]" % (_spelled(a), _spelled(b))
    op.feats = sorted(set([f for f in a.feats + b.feats if not f.startswith(("form:", "npos:"))] + ["overlapping-calls"]
                          + (["same-key"] if (a.unit, a.slot, a.key) == (b.unit, b.slot, b.key) else ["different-keys"])))
    op.tag = a.tag
    op.slot = a.slot
    return op


def _reenter_op(a, b):
    op = Op("reenter")
    op.sub = (a, b)
    op.text = "%s, whose body synchronously calls %s [sync]" % (_spelled(a), _spelled(b))
    op.feats = sorted(set([f for f in a.feats if not f.startswith("form:")] + ["reentrant-body", "form:sync"]))
    op.tag = a.tag
    op.slot = a.slot
    return op


def _extra_ops(ops, units, slots, second, block, pair):
    """together / re-entry operations over the call table `ops` (simplest first)"""
    out = []
    menus = {(u, sl): _overlap_menu(ops, u, sl, second) for u in units for sl in slots}
    if not pair:
        for u in units:
            for sl in slots[:1]:  # on the first instance; the second one takes part in the cross-instance pairs below
                m = menus[(u, sl)]
                if block:
                    # same key same spelling, same key other spelling, different keys (a / b differ), with a raising twin
                    for i, j in ((0, 0), (0, 3), (0, 1), (0, 2), (0, 4)):
                        if i < len(m) and j < len(m):
                            out.append(_both_op(m[i], m[j]))
                for i, j in ((0, 1), (0, 2)):
                    if i < len(m) and j < len(m) and m[i].key != m[j].key:
                        out.append(_reenter_op(m[i], m[j]))
            if block and len(slots) > 1:
                a, b = menus[(u, slots[0])], menus[(u, slots[1])]
                out.append(_both_op(a[0], b[0]))
                out.append(_both_op(a[0], b[1]))
    else:
        for sl in slots[:1]:
            m0, m1 = menus[(units[0], sl)], menus[(units[1], sl)]
            if block:
                out.append(_both_op(m0[0], m1[0]))
                out.append(_both_op(m0[0], m1[1]))
                out.append(_both_op(m0[0], m0[1]))
            out.append(_reenter_op(m0[0], m1[0]))
            out.append(_reenter_op(m1[0], m0[1]))
    return out


def tok(x, _simple=(int, str, type(None), bool)):
    """JSON-able / hashable token of a real cache key or value"""
    if isinstance(x, _simple):
        return x
    if isinstance(x, tuple):
        return tuple([tok(y) for y in x])
    if isinstance(x, HostBase):
        return "I%d" % x.slot
    if isinstance(x, HErr):
        return ("HErr",) + tok(x.args)
    return "<%s>" % type(x).__name__


def _closure_cell(fn, name):
    """the cache object held in the decorator's closure, or None when it cannot be located (a refactoring of the
    decorator must degrade this check to its behavioural oracle, never turn into an alarm)"""
    try:
        code = fn.__code__
        c = fn.__closure__[code.co_freevars.index(name)].cell_contents
    except (AttributeError, ValueError, IndexError, TypeError):
        c = None
        for cell in (getattr(fn, "__closure__", None) or ()):
            try:
                x = cell.cell_contents
            except ValueError:
                continue
            if type(x).__name__ == "LRUCache":
                c = x
                break
    if c is None or not all(hasattr(c, a) for a in ("values", "items", "__len__")):
        return None
    return c


def _outcome(e):
    if isinstance(e, HErr):
        return ("err", e.args[0])
    return ("exc", type(e).__name__, str(e)[:120])


def _differs(names, src, norm):
    out = []
    for i, n in enumerate(names):
        if i >= len(src) or src[i] != norm[i]:
            out.append("differs:" + n)
    return out


# --------------------------------------------------------------------------------------------------
# runtimes


class Runtime(object):
    """one configuration: operation table, fresh real objects + reference per history, one step at a time"""

    def __init__(self, cfg):
        self.cfg = cfg
        self.block = cfg["body"] == "block"
        self.base_feats = [cfg["fam"], "body:" + cfg["body"]]
        self.ops = []
        self.counters = {}
        self.counting = True
        self.w = None

    def count(self, name, n=1):
        if self.counting:  # only the last step of a history is a new transition; the prefix is a replay
            c = self.counters
            c[name] = c.get(name, 0) + n

    def begin(self):
        global CUR
        _sched.reset()
        _tools.utime = _clock
        self.w = CUR = World(self.block, self.cfg.get("start", CLOCK_START))

    def viol(self, sig, msg, op, extra=()):
        return {"sig": sig, "msg": msg, "features": sorted(set(self.base_feats + list(op.feats) + list(extra)))}

    def index_of(self, text):
        for i, op in enumerate(self.ops):
            if op.text == text:
                return i
        raise KeyError(text)

    def execute(self, hist):
        """runs a whole history on fresh objects; returns (violations of the LAST step, violations of earlier steps)"""
        self.fresh()
        early = []
        last = []
        n = len(hist)
        for i, oi in enumerate(hist):
            self.counting = i == n - 1
            f0 = self.w.flushes
            v = self.step(self.ops[oi])
            if self.counting:
                self.count("batch flushes", self.w.flushes - f0)
            if self.w.bad:
                v = list(v) + [self.viol("harness", "; ".join(self.w.bad), self.ops[oi])]
                del self.w.bad[:]
            if i == n - 1:
                last = v
            elif v:
                early.extend(v)
        return last, early

    def classify_call(self, op, real, ran, exp, exp_ran, hit_expected, what):
        """the call-level oracle; returns a violation or None"""
        if real == exp and ran == exp_ran:
            return None
        call = op.text
        if len(ran) > 1:
            return self.viol("body-ran-twice", "%s: the body ran %d times in one call (%r)" % (call, len(ran), ran), op)
        if ran and op.kind == "call" and ran[0] != op.value:
            return self.viol("wrong-body-args", "%s: the body ran with %r, the call's normalised arguments are %r"
                             % (call, ran[0], op.value), op)
        if hit_expected and ran:
            return self.viol("spurious-miss", "%s: the body ran again (%r) although %s; expected the stored value %r"
                             % (call, ran[0], what, exp[1]), op, self.dyn_feats(op))
        if not hit_expected and not ran:
            if real[0] == "ok":
                v = tok(real[1])
                if op.tag is not None and isinstance(v, tuple) and v[:1] != (op.tag,) and v[:1] in self.other_tags(op):
                    return self.viol("served-other-function",
                                     "%s: returned %r, a value cached for ANOTHER FUNCTION decorated with the same decorator "
                                     "object, without running the body (reference: miss, %s)" % (call, v, what), op,
                                     self.dyn_feats(op))
                if op.kind == "call" and isinstance(v, tuple) and v[:1] == op.value[:1] and v != op.value:
                    df = _differs(op.names, v[1:], op.norm)
                    if "differs:self" in df:
                        return self.viol("served-other-instance",
                                         "%s: returned %r, a value cached for ANOTHER INSTANCE, without running the body "
                                         "(reference: miss, %s)" % (call, v, what), op, df + self.dyn_feats(op))
                    return self.viol("served-other-args",
                                     "%s: returned %r, the value cached for a call with other arguments, without running the "
                                     "body (reference: miss, %s)" % (call, v, what), op, df + self.dyn_feats(op))
                return self.viol("stale-hit", "%s: returned %r without running the body although %s"
                                 % (call, v, what), op, self.dyn_feats(op))
            if real[0] == "err":
                return self.viol("exception-cached", "%s: raised %r without running the body (%s)" % (call, real[1], what),
                                 op, self.dyn_feats(op))
            return self.viol("unexpected-exception", "%s: raised %s: %s before the body could run (%s)"
                             % (call, real[1], real[2], what), op, self.dyn_feats(op))
        # the body ran exactly when the reference says so
        if real[0] == "exc":
            return self.viol("unexpected-exception", "%s: raised %s: %s; expected %r" % (call, real[1], real[2], exp), op)
        if exp[0] == "err" and real[0] == "ok":
            return self.viol("exception-swallowed", "%s: returned %r although the body raised" % (call, tok(real[1])), op)
        if exp[0] == "ok" and real[0] == "err":
            return self.viol("unexpected-exception", "%s: raised %r; expected value %r" % (call, real[1], exp[1]), op)
        v = tok(real[1]) if real[0] == "ok" else real[1]
        if real[0] == "ok" and op.kind == "call" and isinstance(v, tuple) and v[:1] == op.value[:1] and v != exp[1] \
                and v != op.value:
            return self.viol("served-other-args", "%s: returned %r, a value belonging to other arguments; expected %r"
                             % (call, v, exp[1]), op, _differs(op.names, v[1:], op.norm) + self.dyn_feats(op))
        return self.viol("wrong-value", "%s: returned %r; the reference cache gives %r" % (call, v, exp), op,
                         self.dyn_feats(op))

    def judge_sub(self, op, sub, real, ran, exp, exp_ran, hit_expected, what, extra):
        """one call of a together / re-entry operation through the ordinary call-level oracle"""
        v = self.classify_call(sub, real, ran, exp, exp_ran, hit_expected, what)
        if v is None:
            return None
        v["features"] = sorted(set(v["features"]) | set(op.feats) | set(extra))
        v["msg"] = "in %s: %s" % (op.text, v["msg"])
        return v

    def split_runs(self, a, b, ran, miss_a, miss_b):
        """attributes the body runs of a two-call operation to its calls; returns (ran_a, ran_b, leftover)"""
        if a.value == b.value:
            if miss_a and miss_b and len(ran) == 1 and ran[0] == a.value:
                return list(ran), list(ran), []  # one body run served both callers of the same key (not forbidden)
            mine = [r for r in ran if r == a.value]
            return mine[:1], mine[1:2], [r for r in ran if r != a.value] + mine[2:]
        ra = [r for r in ran if r == a.value]
        rb = [r for r in ran if r == b.value]
        return ra, rb, [r for r in ran if r != a.value and r != b.value]

    def dyn_feats(self, op):
        return []

    def other_tags(self, op):
        return [(t,) for t in getattr(self, "tags", ()) if t != op.tag]


class AlruRT(Runtime):
    def __init__(self, cfg):
        Runtime.__init__(self, cfg)
        self.maxsize = cfg["maxsize"]
        self.sig = cfg.get("sig") or ("f" if cfg["target"] == "function" else "m")
        self.pair = bool(cfg.get("pair"))
        self.tags = [self.sig] + ([TWIN[self.sig]] if self.pair else [])
        self.keykind = cfg["key"]
        self.key_fn = None if self.keykind == "default" else KEYFNS[(self.sig, self.keykind)]
        self.base_feats += [cfg["target"], "maxsize:%d" % self.maxsize,
                            "default-key" if self.key_fn is None else "keyfn-" + self.keykind]
        if self.pair:
            self.base_feats.append("shared-decorator")
        self.slots = (None,) if cfg["target"] == "function" else ((0,) if self.pair else (0, 1))
        if self.sig in VAR_SIGS:
            self.base_feats.append("var-keyword-signature")
        for u, tag in enumerate(self.tags):
            self.ops += _call_ops(self.sig, self.slots, self._refkey, tag=tag, unit=u, reduced=self.pair)
        if self.sig not in VAR_SIGS:
            self.ops += _extra_ops(self.ops, list(range(len(self.tags))), list(self.slots), "b", self.block, self.pair)
        self.bodies = [BODIES[(tag, cfg["body"])] for tag in self.tags]
        self._last_ent = None

    def _refkey(self, op):
        if self.key_fn is None:
            return op.norm  # normalised arguments: the value bound to every parameter (self = instance slot)
        if op.slot is None:
            return self.key_fn(op.args, dict(op.kwargs))
        return self.key_fn((SelfTok(op.slot),) + op.args, dict(op.kwargs))

    def fresh(self):
        self.begin()
        # ONE decorator object; a pair configuration applies it to both functions
        decorator = _tools.alru_cache(maxsize=self.maxsize, key_fn=self.key_fn)
        decos = [decorator(_asynq()(b)) for b in self.bodies]
        self.caches = [_closure_cell(d.fn, "cache") for d in decos]
        if self.slots == (None,):
            self.targets = decos
            self.insts = None
        else:
            cls = type("Host", (HostBase,), dict(zip(self.tags, decos)))
            self.insts = [cls(slot) for slot in self.slots]
            self.targets = None
        self.refs = [OrderedDict() for _ in self.tags]  # per function: key -> (value, shape, text) ; LRU first
        self._last_ent = None

    def enabled(self):
        return range(len(self.ops))

    def _target(self, op):
        if self.insts is None:
            return self.targets[op.unit]
        return getattr(self.insts[op.slot], op.tag)

    def _invoke(self, op):
        t = self._target(op)
        try:
            if op.form == 0:
                return ("ok", t(*op.args, **op.kwargs))
            return ("ok", t.asynq(*op.args, **op.kwargs).value())
        except BaseException as e:
            if isinstance(e, (KeyboardInterrupt, SystemExit, MemoryError)):
                raise
            return _outcome(e)

    def dyn_feats(self, op):
        ent = self._last_ent
        if ent is None:
            return []
        return ["respelled" if ent[1] != op.shape else "same-spelling"]

    def step(self, op):
        if op.kind == "both":
            return self._step_both(op)
        if op.kind == "reenter":
            return self._step_reenter(op)
        w = self.w
        n0 = len(w.runs)
        real = self._invoke(op)
        ran = w.runs[n0:]
        ref = self.refs[op.unit]
        key = op.key
        ent = ref.get(key)
        self._last_ent = ent
        evicted = None
        if ent is not None:
            ref.move_to_end(key)  # a hit makes the entry the most recently used
            exp = ("ok", ent[0])
            exp_ran = []
            what = "an entry for this key was stored by %s" % ent[2]
            self.count("hits")
        else:
            exp_ran = [op.value]
            what = "no entry for this key" + (" in %s's own cache" % op.tag if self.pair else "")
            if op.raises:
                exp = ("err", op.value)
                self.count("raising calls")
            else:
                exp = ("ok", op.value)
                if len(ref) >= self.maxsize:
                    evicted = ref.popitem(last=False)
                    self.count("evictions")
                ref[key] = (op.value, op.shape, op.text)
                self.count("misses")
        v = self.classify_call(op, real, ran, exp, exp_ran, ent is not None, what)
        if v is not None:
            return [v]
        return self._check_content(op, self.refs, exp[0] == "err", evicted, op.unit)

    def _check_content(self, op, refs, raised, evicted, unit, ordered=False):
        """cache content against the reference caches `refs` (explicit parts of the statement: no entry after a
        raise, <= maxsize, LRU victim); `ordered` also compares the recency order"""
        if not self.counting and not ordered and op.kind != "both":
            return []  # replayed prefix step: judged when it was the last step of its own history
        for u, tag in enumerate(self.tags):
            cache = self.caches[u]
            if cache is None:
                continue
            who = "%s's cache" % tag if self.pair else "the cache"
            real_vals = [tok(x) for x in cache.values()]
            ref_vals = [e[0] for e in refs[u].values()]
            if ordered and real_vals != ref_vals and sorted(real_vals, key=repr) == sorted(ref_vals, key=repr):
                return [self.viol("lru-order", "%s: %s holds %r (least recently used first), the reference %r"
                                  % (op.text, who, real_vals, ref_vals), op)]
            if len(real_vals) > self.maxsize:
                return [self.viol("lru-oversize", "%s: %s holds %d entries, maxsize is %d"
                                  % (op.text, who, len(real_vals), self.maxsize), op)]
            if sorted(real_vals, key=repr) != sorted(ref_vals, key=repr):
                if u != unit and cache is self.caches[unit]:
                    return [self.viol("cache-shared-between-functions",
                                      "%s: the two functions decorated with one alru_cache(...) object share ONE cache object "
                                      "(one key space, one maxsize budget): %s holds %r, its own reference cache %r"
                                      % (op.text, who, real_vals, ref_vals), op)]
                if raised:
                    return [self.viol("raise-left-entry", "%s: the body raised but the cache content changed: %s holds %r, reference %r"
                                      % (op.text, who, real_vals, ref_vals), op)]
                if evicted is not None and u == unit:
                    return [self.viol("lru-victim", "%s: cache full; the reference evicts the least recently used %r, %s now holds %r"
                                      " (reference %r)" % (op.text, evicted[1][0], who, real_vals, ref_vals), op)]
                return [self.viol("content-mismatch", "%s: %s holds %r, the reference %r" % (op.text, who, real_vals, ref_vals), op)]
        return []

    # ---- operations made of two calls -----------------------------------------------------------------------------
    def _expect(self, sub, ent):
        if ent is not None:
            return ("ok", ent[0]), [], "an entry for this key was stored by %s" % ent[2]
        what = "no entry for this key" + (" in %s's own cache" % sub.tag if self.pair else "")
        if sub.raises:
            return ("err", sub.value), [sub.value], what
        return ("ok", sub.value), [sub.value], what

    def _store(self, refs, sub, evicted):
        r = refs[sub.unit]
        if sub.key in r:
            # storing an existing key (two overlapping misses of one key) replaces the value and refreshes it; with a
            # key_fn that ignores a parameter the two values may differ: the one stored last is kept
            r[sub.key] = (sub.value, sub.shape, sub.text)
            r.move_to_end(sub.key)
            return
        if len(r) >= self.maxsize:
            evicted.append(r.popitem(last=False))
        r[sub.key] = (sub.value, sub.shape, sub.text)

    def _step_both(self, op):
        a, b = op.sub
        w = self.w
        n0 = len(w.runs)
        try:
            res = _together([(self._target(a), a.args, a.kwargs), (self._target(b), b.args, b.kwargs)])
        except BaseException as e:
            if isinstance(e, (KeyboardInterrupt, SystemExit, MemoryError)):
                raise
            return [self.viol("unexpected-exception", "%s: the driver task failed with %r" % (op.text, e), op)]
        ran = w.runs[n0:]
        self.count("together operations")
        # both calls look the cache up before either of them stores
        ea, eb = self.refs[a.unit].get(a.key), self.refs[b.unit].get(b.key)
        ran_a, ran_b, left = self.split_runs(a, b, ran, ea is None, eb is None)
        if left:
            return [self.viol("body-ran-twice", "%s: unexpected extra body runs %r (all runs: %r)" % (op.text, left, ran), op)]
        for sub, ent, real, rn in ((a, ea, res[0], ran_a), (b, eb, res[1], ran_b)):
            self._last_ent = ent
            exp, exp_ran, what = self._expect(sub, ent)
            v = self.judge_sub(op, sub, real, rn, exp, exp_ran, ent is not None, what, ())
            if v is not None:
                return [v]
        # every permitted order of the two look-ups and of the two stores
        raised = (ea is None and a.raises) or (eb is None and b.raises)
        cands = []
        for lk in (((a, ea), (b, eb)), ((b, eb), (a, ea))):
            for st in (((a, ea), (b, eb)), ((b, eb), (a, ea))):
                refs = [OrderedDict(r) for r in self.refs]
                evicted = []
                for sub, ent in lk:
                    if ent is not None:
                        refs[sub.unit].move_to_end(sub.key)
                for sub, ent in st:
                    if ent is None and not sub.raises:
                        self._store(refs, sub, evicted)
                sig = tuple([tuple([(k, e[0]) for k, e in r.items()]) for r in refs])
                if all(sig != c[0] for c in cands):
                    cands.append((sig, refs, evicted))
        first = None
        for ordered in (True, False):
            for sig, refs, evicted in cands:
                v = self._check_content(op, refs, raised, evicted[0] if evicted else None, a.unit, ordered)
                if first is None:
                    first = v
                if not v:
                    self.refs = refs
                    self.count("evictions", len(evicted))
                    return []
        return first

    def _step_reenter(self, op):
        a, b = op.sub  # the body of a calls b synchronously before it returns
        w = self.w
        n0 = len(w.runs)
        w.inner = None

        def thunk():
            w.inner = self._invoke(b)

        w.reenter = thunk
        real = self._invoke(a)
        w.reenter = None
        ran = w.runs[n0:]
        self.count("re-entrant operations")
        refs = self.refs
        ea = refs[a.unit].get(a.key)
        self._last_ent = ea
        evicted = []
        exp, exp_ran, what = self._expect(a, ea)
        eb = None
        if ea is not None:
            refs[a.unit].move_to_end(a.key)
        else:
            eb = refs[b.unit].get(b.key)
            if eb is not None:
                refs[b.unit].move_to_end(b.key)
            elif not b.raises:
                self._store(refs, b, evicted)
            if not a.raises:
                self._store(refs, a, evicted)
        ran_a = [r for r in ran if r == a.value]
        ran_b = [r for r in ran if r == b.value]
        left = [r for r in ran if r != a.value and r != b.value]
        if left:
            return [self.viol("wrong-body-args", "%s: unexpected body runs %r" % (op.text, left), op)]
        v = self.judge_sub(op, a, real, ran_a, exp, exp_ran, ea is not None, what, ())
        if v is not None:
            return [v]
        if ea is None:
            if w.inner is None:
                return [self.viol("harness", "%s: the body ran but did not re-enter" % op.text, op)]
            self._last_ent = eb
            expb, expb_ran, whatb = self._expect(b, eb)
            v = self.judge_sub(op, b, w.inner, ran_b, expb, expb_ran, eb is not None, whatb + " (nested call)", ())
            if v is not None:
                return [v]
        elif ran_b or w.inner is not None:
            return [self.viol("spurious-miss", "%s: the outer call is a hit, yet the body ran and re-entered" % op.text, op)]
        return self._check_content(op, refs, exp[0] == "err", evicted[0] if evicted else None, a.unit)

    def canon(self):
        w = self.w
        return (tuple([tuple([(k, e[0]) for k, e in ref.items()]) for ref in self.refs]),
                tuple([None if c is None else tuple([(tok(k), tok(v)) for k, v in c.items()]) for c in self.caches]),
                len(w.runs))

    def nontrivial(self):
        return any(len(r) for r in self.refs) or any(c is not None and len(c) > 0 for c in self.caches)


class AcpiRT(Runtime):
    def __init__(self, cfg):
        Runtime.__init__(self, cfg)
        self.sig = {"ab": "m", "ac": "n", "abc": "p", "abk": "w"}[cfg["sig"]]
        self.pair = bool(cfg.get("pair"))
        self.tags = [self.sig] + ([TWIN[self.sig]] if self.pair else [])
        self.base_feats += ["method", "sig:" + cfg["sig"], "default-key"]
        if self.pair:
            self.base_feats.append("shared-decorator")
        for u, tag in enumerate(self.tags):
            # (the pair configuration uses the synchronous calling form only; both forms are covered without "pair")
            self.ops += _call_ops(self.sig, (0, 1), lambda op: op.norm[1:], tag=tag, unit=u,
                                  reduced="tiny" if self.pair else False, forms=(0,) if self.pair else (0, 1))
        extra = []
        if self.sig in VAR_SIGS:
            self.base_feats.append("var-keyword-signature")
        else:
            extra = _extra_ops(self.ops, list(range(len(self.tags))), [0, 1], "c" if self.sig == "n" else "b", self.block, self.pair)
        for slot in (0, 1):
            op = Op("del")
            op.slot = slot
            op.text = "del I%d; gc.collect()" % slot
            op.feats = ["delete-instance"]
            self.ops.append(op)
        self.ops += extra
        self.bodies = [BODIES[(tag, cfg["body"])] for tag in self.tags]
        self._last_ent = None

    def fresh(self):
        self.begin()
        decorator = _tools.acached_per_instance()  # ONE decorator object; a pair configuration applies it to both methods
        decos = [decorator(_asynq()(b)) for b in self.bodies]
        self.cls = type("Host", (HostBase,), dict(zip(self.tags, decos)))
        self.caches = [d.__acached_per_instance_cache__ for d in decos]
        self.insts = [self.cls(0), self.cls(1)]
        # per method, per slot: key -> (value, shape, text); None while the slot is empty
        self.refs = [[{}, {}] for _ in self.tags]
        self.generation = [0, 0]
        self.ndeleted = 0
        self._last_ent = None

    def enabled(self):
        return [i for i, op in enumerate(self.ops) if not (op.kind == "del" and self.insts[op.slot] is None)]

    def dyn_feats(self, op):
        ent = self._last_ent
        ft = []
        if self.generation[op.slot]:
            ft.append("recreated-instance")
        if ent is not None:
            ft.append("respelled" if ent[1] != op.shape else "same-spelling")
        return ft

    def _target(self, op):
        return getattr(self.insts[op.slot], op.tag)

    def _ensure(self, slot):
        if self.insts[slot] is None:
            # a new object takes the slot (it may well get the id() of the collected one)
            self.insts[slot] = self.cls(slot)
            for r in self.refs:
                r[slot] = {}
            self.generation[slot] += 1
            self.count("instances re-created")

    def _expect(self, sub, ent):
        if ent is not None:
            return ("ok", ent[0]), [], "an entry for this key and instance was stored by %s" % ent[2]
        what = "no entry for this key on this instance" + (" in %s's own cache" % sub.tag if self.pair else "")
        if sub.raises:
            return ("err", sub.value), [sub.value], what
        return ("ok", sub.value), [sub.value], what

    def _step_both(self, op):
        a, b = op.sub
        w = self.w
        self._ensure(a.slot)
        self._ensure(b.slot)
        n0 = len(w.runs)
        try:
            res = _together([(self._target(a), a.args, a.kwargs), (self._target(b), b.args, b.kwargs)])
        except BaseException as e:
            if isinstance(e, (KeyboardInterrupt, SystemExit, MemoryError)):
                raise
            return [self.viol("unexpected-exception", "%s: the driver task failed with %r" % (op.text, e), op)]
        ran = w.runs[n0:]
        self.count("together operations")
        ra, rb = self.refs[a.unit][a.slot], self.refs[b.unit][b.slot]
        ea, eb = ra.get(a.key), rb.get(b.key)  # both look up before either stores
        ran_a, ran_b, left = self.split_runs(a, b, ran, ea is None, eb is None)
        if left:
            return [self.viol("body-ran-twice", "%s: unexpected extra body runs %r (all runs: %r)" % (op.text, left, ran), op)]
        for sub, ent, real, rn in ((a, ea, res[0], ran_a), (b, eb, res[1], ran_b)):
            self._last_ent = ent
            exp, exp_ran, what = self._expect(sub, ent)
            v = self.judge_sub(op, sub, real, rn, exp, exp_ran, ent is not None, what, self.dyn_feats(sub))
            if v is not None:
                return [v]
        if ea is None and not a.raises:
            ra[a.key] = (a.value, a.shape, a.text)
        if eb is None and not b.raises:
            rb[b.key] = (b.value, b.shape, b.text)
        return self._content_check(op, (ea is None and a.raises) or (eb is None and b.raises))

    def _step_reenter(self, op):
        a, b = op.sub
        w = self.w
        self._ensure(a.slot)
        self._ensure(b.slot)
        n0 = len(w.runs)
        w.inner = None

        def thunk():
            w.inner = self._invoke(b)

        w.reenter = thunk
        real = self._invoke(a)
        w.reenter = None
        ran = w.runs[n0:]
        self.count("re-entrant operations")
        ra, rb = self.refs[a.unit][a.slot], self.refs[b.unit][b.slot]
        ea = ra.get(a.key)
        self._last_ent = ea
        exp, exp_ran, what = self._expect(a, ea)
        eb = None
        if ea is None:
            eb = rb.get(b.key)
            if eb is None and not b.raises:
                rb[b.key] = (b.value, b.shape, b.text)
            if not a.raises:
                ra[a.key] = (a.value, a.shape, a.text)
        ran_a = [r for r in ran if r == a.value]
        ran_b = [r for r in ran if r == b.value]
        left = [r for r in ran if r != a.value and r != b.value]
        if left:
            return [self.viol("wrong-body-args", "%s: unexpected body runs %r" % (op.text, left), op)]
        v = self.judge_sub(op, a, real, ran_a, exp, exp_ran, ea is not None, what, ())
        if v is not None:
            return [v]
        if ea is None:
            if w.inner is None:
                return [self.viol("harness", "%s: the body ran but did not re-enter" % op.text, op)]
            self._last_ent = eb
            expb, expb_ran, whatb = self._expect(b, eb)
            v = self.judge_sub(op, b, w.inner, ran_b, expb, expb_ran, eb is not None, whatb + " (nested call)", ())
            if v is not None:
                return [v]
        elif ran_b or w.inner is not None:
            return [self.viol("spurious-miss", "%s: the outer call is a hit, yet the body ran and re-entered" % op.text, op)]
        return self._content_check(op, exp[0] == "err")

    def _invoke(self, op):
        t = getattr(self.insts[op.slot], op.tag)
        try:
            if op.form == 0:
                return ("ok", t(*op.args, **op.kwargs))
            return ("ok", t.asynq(*op.args, **op.kwargs).value())
        except BaseException as e:
            if isinstance(e, (KeyboardInterrupt, SystemExit, MemoryError)):
                raise
            return _outcome(e)

    def _real_content(self, u):
        """method u, per slot: list of (key, value) or None; plus entries that belong to no live instance"""
        by_id = {}
        for i, inst in enumerate(self.insts):
            if inst is not None:
                by_id[id(inst)] = i
        per = [None, None]
        stale = []
        for ident, ent in list(self.caches[u].items()):
            slot = by_id.get(ident)
            try:
                items = [(tok(k), tok(v)) for k, v in ent[1].items()]
            except Exception:
                items = [("<unreadable>", "<unreadable>")]
            if slot is None:
                stale.append(items)
            else:
                per[slot] = items
        return per, stale

    def step(self, op):
        if op.kind == "del":
            return self._delete(op)
        if op.kind == "both":
            return self._step_both(op)
        if op.kind == "reenter":
            return self._step_reenter(op)
        w = self.w
        slot = op.slot
        self._ensure(slot)
        n0 = len(w.runs)
        real = self._invoke(op)
        ran = w.runs[n0:]
        ref = self.refs[op.unit][slot]
        key = op.key
        ent = ref.get(key)
        self._last_ent = ent
        if ent is not None:
            exp = ("ok", ent[0])
            exp_ran = []
            what = "an entry for this key and instance was stored by %s" % ent[2]
            self.count("hits")
        else:
            exp_ran = [op.value]
            what = "no entry for this key on this instance" + (" in %s's own cache" % op.tag if self.pair else "")
            if op.raises:
                exp = ("err", op.value)
                self.count("raising calls")
            else:
                exp = ("ok", op.value)
                ref[key] = (op.value, op.shape, op.text)
                self.count("misses")
        v = self.classify_call(op, real, ran, exp, exp_ran, ent is not None, what)
        if v is not None:
            return [v]
        return self._content_check(op, exp[0] == "err")

    def _content_check(self, op, raised):
        if not self.counting:
            return []  # replayed prefix step: judged when it was the last step of its own history
        for u, tag in enumerate(self.tags):
            per, stale = self._real_content(u)
            if stale:
                if not self.ndeleted:
                    return [self.viol("entry-not-per-instance",
                                      "%s: __acached_per_instance_cache__ holds %d entr%s under a key that is not the id of any "
                                      "live instance although no instance was deleted yet (not keyed per instance?): %r"
                                      % (op.text, len(stale), "y" if len(stale) == 1 else "ies", stale), op)]
                return [self.viol("entry-after-gc", "%s: the per-instance cache keeps %d entr%s of collected instance(s): %r"
                                  % (op.text, len(stale), "y" if len(stale) == 1 else "ies", stale), op)]
            for slot in (0, 1):
                rv = sorted([v for k, v in (per[slot] or [])], key=repr)
                fv = sorted([e[0] for e in (self.refs[u][slot] or {}).values()], key=repr)
                if rv != fv:
                    who = "instance I%d's cache%s" % (slot, " of method %s" % tag if self.pair else "")
                    if raised:
                        return [self.viol("raise-left-entry", "%s: the body raised but %s changed: holds %r, reference %r"
                                          % (op.text, who, rv, fv), op)]
                    if all(x in fv for x in rv):
                        return [self.viol("computed-value-not-stored",
                                          "%s: %s holds %r; the reference also holds %r, computed for this live instance and "
                                          "never evicted (per-instance caches have no size bound)"
                                          % (op.text, who, rv, [x for x in fv if x not in rv]), op)]
                    return [self.viol("content-mismatch", "%s: %s holds %r, the reference %r" % (op.text, who, rv, fv), op)]
        return []

    def _delete(self, op):
        slot = op.slot
        inst = self.insts[slot]
        wr = weakref.ref(inst)
        ident = id(inst)
        self.insts[slot] = None
        for r in self.refs:
            r[slot] = None
        del inst
        gc.collect()
        self.ndeleted += 1
        self.count("instances deleted")
        if wr() is not None:
            return [self.viol("harness-instance-leak", "%s: the instance is still alive after del + gc.collect() "
                              "(referrers: %s)" % (op.text, [type(r).__name__ for r in gc.get_referrers(wr())][:6]), op)]
        for cache in self.caches:
            if ident in cache:
                ent = cache[ident]
                try:
                    items = [(tok(k), tok(v)) for k, v in ent[1].items()]
                except Exception:
                    items = "<unreadable>"
                return [self.viol("entry-after-gc", "%s: the instance was collected but its cache entry is still there: %r"
                                  % (op.text, items), op)]
        return self._content_check(op, False)

    def canon(self):
        out = []
        for u in range(len(self.tags)):
            per, stale = self._real_content(u)
            r = tuple([None if d is None else tuple(sorted([(k, e[0]) for k, e in d.items()])) for d in self.refs[u]])
            p = tuple([None if x is None else tuple(sorted(x, key=repr)) for x in per])
            out.append((r, p, len(stale)))
        return (tuple(out), len(self.w.runs))

    def nontrivial(self):
        return any(d for r in self.refs for d in r if d) or any(len(e[1]) for c in self.caches for e in c.values())


class AlazyRT(Runtime):
    def __init__(self, cfg):
        Runtime.__init__(self, cfg)
        self.ttl = cfg["ttl"]
        self.pair = bool(cfg.get("pair"))
        self.tags = ["z"] + ([TWIN["z"]] if self.pair else [])
        self.base_feats += ["ttl:%d" % self.ttl, "clock-start:%d" % cfg.get("start", CLOCK_START)]
        if cfg.get("start", CLOCK_START) < CLOCK_START:
            self.base_feats.append("small-clock")
        if self.pair:
            self.base_feats.append("shared-decorator")
        for u, tag in enumerate(self.tags):
            for form in (0, 1):
                op = Op("zcall")
                op.unit = u
                op.tag = tag
                op.form = form
                op.text = "%s() [%s]" % (tag, FORMS[form])
                op.feats = ["form:" + FORMS[form]]
                self.ops.append(op)
            op = Op("dirty")
            op.unit = u
            op.text = "%s.dirty()" % tag
            op.feats = ["dirty"]
            self.ops.append(op)
        if self.block:
            n = len(self.tags)
            for u, v in [(0, 0)] + ([(0, 1), (1, 1)] if n > 1 else []):
                op = Op("zboth")
                op.sub = (u, v)
                op.text = "together[%s() | %s()]" % (self.tags[u], self.tags[v])
                op.feats = ["overlapping-calls", "same-key" if u == v else "different-keys"]
                self.ops.append(op)
        for s in CLOCK_STEPS:
            op = Op("clock")
            op.step = s
            op.text = "clock += %d" % s
            op.feats = ["advance-clock"]
            self.ops.append(op)
        op = Op("arm")
        op.text = "arm: the next body run raises"
        op.feats = ["arm-raise"]
        self.ops.append(op)
        self.bodies = [BODIES[(tag, cfg["body"])] for tag in self.tags]
        self._why = []

    def fresh(self):
        self.begin()
        decorator = _tools.alazy_constant(ttl=self.ttl)  # ONE decorator object; a pair configuration applies it twice
        self.zs = [decorator(_asynq()(b)) for b in self.bodies]
        # per function: (candidate values, refresh_time) ; None = nothing valid stored.  More than one candidate only
        # after two overlapping recomputations (either result may be the one kept); the next hit settles it
        self.cells = [None for _ in self.tags]
        self.armed = False
        self.nruns = 0
        self.since_dirty = [None for _ in self.tags]  # calls since the last dirty()
        self._why = []

    def enabled(self):
        return [i for i, op in enumerate(self.ops) if not (op.kind == "arm" and self.armed)]

    def dyn_feats(self, op):
        return list(self._why)

    def step(self, op):
        w = self.w
        k = op.kind
        if k == "clock":
            w.now += op.step
            return []
        if k == "arm":
            w.armed = True
            self.armed = True
            return []
        if k == "zboth":
            return self._step_both(op)
        u = op.unit
        z = self.zs[u]
        if k == "dirty":
            try:
                z.dirty()
            except BaseException as e:
                return [self.viol("unexpected-exception", "dirty() raised %r" % (e,), op)]
            self.cells[u] = None
            self.since_dirty[u] = 0
            self.count("dirty")
            return []
        n0 = len(w.runs)
        try:
            if op.form == 0:
                real = ("ok", z())
            else:
                real = ("ok", z.asynq().value())
        except BaseException as e:
            if isinstance(e, (KeyboardInterrupt, SystemExit, MemoryError)):
                raise
            real = _outcome(e)
        ran = w.runs[n0:]
        cell = self.cells[u]
        now = w.now
        why = []
        if cell is None:
            miss = True
            what = "nothing is stored (first call, after dirty(), or after a raising body); clock reads %d" % now
            why.append("after-dirty" if self.since_dirty[u] == 0 else "empty")
        elif self.ttl != 0 and now - cell[1] > self.ttl:
            miss = True
            what = "the stored value is %d us old, ttl is %d" % (now - cell[1], self.ttl)
            why.append("ttl-expired")
        else:
            miss = False
            what = "a value stored %d us ago is valid (ttl %d)" % (now - cell[1], self.ttl)
            why.append("fresh")
        self._why = why
        if self.since_dirty[u] is not None:
            self.since_dirty[u] += 1
        if miss:
            self.nruns += 1
            rec = (op.tag, self.nruns)
            exp_ran = [rec]
            if self.armed:
                self.armed = False
                exp = ("err", rec)
                self.count("raising calls")
            else:
                exp = ("ok", rec)
                self.cells[u] = ((rec,), now)
                self.count("recomputations" if self.nruns > 1 else "misses")
        else:
            if len(cell[0]) > 1 and real[0] == "ok" and tok(real[1]) in cell[0]:
                cell = self.cells[u] = ((tok(real[1]),), cell[1])  # settles which overlapping result was kept
            exp = ("ok", cell[0][0])
            exp_ran = []
            self.count("hits")
        v = self.classify_call(op, real, ran, exp, exp_ran, not miss, what)
        if v is None:
            return []
        # the statement's clause for alazy_constant: dirty() / ttl expiry force exactly one recomputation
        v["sig"] = {"spurious-miss": "alazy-extra-recomputation", "stale-hit": "alazy-missing-recomputation"}.get(v["sig"], v["sig"])
        return [v]

    def _stale(self, u):
        cell = self.cells[u]
        return cell is None or (self.ttl != 0 and self.w.now - cell[1] > self.ttl)

    def _step_both(self, op):
        w = self.w
        units = op.sub
        now = w.now
        n0 = len(w.runs)
        try:
            res = _together([(self.zs[u], (), {}) for u in units])
        except BaseException as e:
            if isinstance(e, (KeyboardInterrupt, SystemExit, MemoryError)):
                raise
            return [self.viol("unexpected-exception", "%s: the driver task failed with %r" % (op.text, e), op)]
        ran = w.runs[n0:]
        self.count("together operations")
        miss = [self._stale(u) for u in units]
        self._why = ["overlapping-calls"]
        # the body-run serials are consecutive; an armed failure hits the first body that runs
        raising = ran[0] if (ran and self.armed) else None
        for i, r in enumerate(ran):
            if r[1] != self.nruns + 1 + i:
                return [self.viol("harness", "%s: body-run serials %r do not continue %d" % (op.text, ran, self.nruns), op)]
        if ran and self.armed:
            self.armed = False
        self.nruns += len(ran)
        for u in set(units):
            tag = self.tags[u]
            mine = [r for r in ran if r[0] == tag]
            ncalls = len([x for x in units if x == u])
            if not miss[units.index(u)]:
                if mine:
                    return [self.viol("alazy-extra-recomputation", "%s: the body of %s ran (%r) although a valid value is stored"
                                      % (op.text, tag, mine), op, self._why)]
            elif not mine:
                return [self.viol("alazy-missing-recomputation", "%s: the body of %s did not run although its value is stale or missing; "
                                  "results %r" % (op.text, tag, [tok(x) for x in res]), op, self._why)]
            elif len(mine) > ncalls:
                return [self.viol("body-ran-twice", "%s: the body of %s ran %d times for %d call(s)" % (op.text, tag, len(mine), ncalls),
                                  op, self._why)]
        for i, u in enumerate(units):
            tag = self.tags[u]
            real = res[i]
            got = tok(real[1]) if len(real) > 1 else None
            if not miss[i]:
                cell = self.cells[u]
                if real[0] != "ok" or got not in cell[0]:
                    return [self.viol("wrong-value", "%s: call %d returned %r, the stored value is %r" % (op.text, i + 1, real, cell[0]),
                                      op, self._why)]
                if len(cell[0]) > 1:
                    self.cells[u] = ((got,), cell[1])
                continue
            mine = [r for r in ran if r[0] == tag]
            if real[0] == "ok":
                if got not in mine or got == raising:
                    return [self.viol("wrong-value", "%s: call %d returned %r, which no successful body run of this operation produced "
                                      "(runs %r)" % (op.text, i + 1, got, ran), op, self._why)]
            elif real[0] == "err":
                if got != raising:
                    return [self.viol("unexpected-exception", "%s: call %d raised %r; body runs %r, failing run %r"
                                      % (op.text, i + 1, got, ran, raising), op, self._why)]
            else:
                return [self.viol("unexpected-exception", "%s: call %d raised %s: %s" % (op.text, i + 1, real[1], real[2]), op, self._why)]
        for u in set(units):
            if miss[units.index(u)]:
                good = tuple([r for r in ran if r[0] == self.tags[u] and r != raising])
                if good:
                    self.cells[u] = (good, now)
                    self.count("recomputations")
        return []

    def canon(self):
        w = self.w
        now = w.now
        per = []
        for u, z in enumerate(self.zs):
            cell = self.cells[u]
            rt = z.alazy_constant_refresh_time
            per.append((None if cell is None else (cell[0], now - cell[1]),
                        ("dirty" if rt == 0 else now - rt, tok(z.alazy_constant_cached_value))))
        # a small absolute clock value is part of the state (a clock that started recently); a large one is not
        return (tuple(per), len(w.runs), self.armed, w.armed, now if now < 4096 else None)

    def nontrivial(self):
        return any(c is not None for c in self.cells) or any(z.alazy_constant_refresh_time != 0 for z in self.zs)


def make_runtime(cfg):
    fam = cfg["fam"]
    if fam == "alru":
        return AlruRT(cfg)
    if fam == "acpi":
        return AcpiRT(cfg)
    if fam == "alazy":
        return AlazyRT(cfg)
    raise ValueError(fam)


def _case(rt, hist):
    return {"cfg": rt.cfg, "ops": [rt.ops[i].text for i in hist]}


def explore(cfg, depth, env):
    """BFS over all histories of length <= depth of one configuration, de-duplicated by canonical state.
    A transition that violates the oracle is reported and not extended (the reference and the cache have diverged)."""
    hb = env["hb"]
    rt = make_runtime(cfg)
    out = {"evals": 0, "states": 0, "transitions": 0, "nontrivial": 0, "violations": [], "samples": [], "counters": {}}
    cnt = out["counters"]
    rt.fresh()
    seen = {rt.canon()}
    out["evals"] = 1
    out["states"] = 1
    frontier = [((), list(rt.enabled()))]
    nops = 0
    tick = 0
    deepest = None
    for d in range(depth):
        nxt = []
        for hist, en in frontier:
            for oi in en:
                h2 = hist + (oi,)
                tick += 1
                if tick & 0xFF == 0:
                    hb[0] = time.time()
                    hb[2] = tick
                last, early = rt.execute(h2)
                out["evals"] += 1
                out["transitions"] += 1
                nops += len(h2)
                if early:
                    cnt["viol:nondeterministic-replay"] = cnt.get("viol:nondeterministic-replay", 0) + 1
                    if len(out["violations"]) < MAX_VIOL_PER_JOB:
                        v = dict(early[0])
                        v["msg"] = "a prefix that passed before failed when replayed: " + v["msg"]
                        v["sig"] = "nondeterministic-replay"
                        v["case"] = _case(rt, h2)
                        out["violations"].append(v)
                    continue
                if last:
                    for v in last:
                        cnt["viol:" + v["sig"]] = cnt.get("viol:" + v["sig"], 0) + 1
                        if len(out["violations"]) < MAX_VIOL_PER_JOB:
                            v = dict(v)
                            v["case"] = _case(rt, h2)
                            v["msg"] = "%s | history: %s" % (v["msg"], " ; ".join(v["case"]["ops"]))
                            out["violations"].append(v)
                    continue
                st = rt.canon()
                if st not in seen:
                    seen.add(st)
                    out["states"] += 1
                    if rt.nontrivial():
                        out["nontrivial"] += 1
                    nxt.append((h2, list(rt.enabled())))
                    deepest = h2
        frontier = nxt
        cnt["states first reached at depth %d" % (d + 1)] = len(nxt)
    cnt["operations executed incl. prefix replays"] = nops
    for k, v in rt.counters.items():
        cnt["transitions: " + k] = cnt.get("transitions: " + k, 0) + v
    if deepest is not None:
        out["samples"].append({"cfg": cfg, "history": [rt.ops[i].text for i in deepest]})
    return out


def replay(case):
    """re-runs one recorded history step by step; returns every violation met"""
    rt = make_runtime(case["cfg"])
    hist = [rt.index_of(t) for t in case["ops"]]
    last, early = rt.execute(tuple(hist))
    res = []
    for v in early + last:
        v = dict(v)
        v["case"] = case
        res.append(v)
    return res
