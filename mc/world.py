"""The harness world: real asynq objects driven by a compiled program (mc.prog) under a steered flush
schedule, with online monitors.  Import only after mc.build.activate().

One execution = World(prog, cfg).run().  Monitors append (category, message) to W.viol; categories
are mapped to properties by the checks.
"""
import gc
import io
import sys
import threading

import asynq
import asynq.scheduler as _sched
import asynq.batching as _batching
import asynq.tools as _tools
import asynq.debug as _adebug
import asynq._debug as _dbg
import asynq.profiler as _profiler
from asynq import (
    asynq as _asynq_deco,
    AsyncContext,
    NonAsyncContext,
    AsyncScopedValue,
    async_override,
    BatchBase,
    BatchItemBase,
    ConstFuture,
    ErrorFuture,
    Future,
    AsyncTask,
    async_call,
)
from asynq.futures import FutureBase

from .prog import HErr, HBaseErr, HFalsyErr, tok, compile_prog

class _Cur(threading.local):
    """the current world of this thread"""

    w = None


_cur = _Cur()

KIND_RANK = {"a": 3, "b": 2, "c": 1}
TASK_OWNER = {}  # THREADX: id(task) -> world that obtained it first (objects kept alive by the worlds)
DBI_OWNER = {}

from .prog import OPTION_NAMES
_DEFAULTS = {n: getattr(_dbg.options, n) for n in OPTION_NAMES}
_DEFAULTS["MAX_TASK_STACK_SIZE"] = _dbg.options.MAX_TASK_STACK_SIZE
_DEFAULTS["SCHEDULER_STATE_DUMP_INTERVAL"] = _dbg.options.SCHEDULER_STATE_DUMP_INTERVAL
_DEFAULTS["DEBUG_STR_REPR_MAX_LENGTH"] = _dbg.options.DEBUG_STR_REPR_MAX_LENGTH
_DEFAULTS["STACK_DUMP_LIMIT"] = _dbg.options.STACK_DUMP_LIMIT


class Sink(io.TextIOBase):
    """diagnostic stream: counted, discarded"""

    def __init__(self):
        self.n = 0

    def write(self, s):
        self.n += len(s)
        return len(s)

    def flush(self):
        pass


SINK = Sink()
_real_stdout, _real_stderr = sys.stdout, sys.stderr


def capture_streams():
    sys.stdout = SINK
    sys.stderr = SINK
    _adebug.stdout = SINK
    _adebug.stderr = SINK
    try:
        _sched.stdout = SINK
        _sched.stderr = SINK
    except Exception:
        pass


class Clock(object):
    """scripted clock for utime(): every call advances by `step` microseconds"""

    def __init__(self, step=1):
        self.t = 1000000
        self.step = step

    def __call__(self):
        self.t += self.step
        return self.t


def install_clock(clock):
    _sched.utime = clock
    _tools.utime = clock


# --------------------------------------------------------------------------------------------------
# harness batches


class HBatch(BatchBase):
    def __init__(self, kind, serial):
        BatchBase.__init__(self)
        self.kind = kind
        self.serial = serial
        self.flush_entries = 0
        self.in_window = False

    def __hash__(self):
        return self.serial * 7919 + KIND_RANK[self.kind]

    def __eq__(self, other):
        return self is other

    def _try_switch_active_batch(self):
        w = _cur.w
        if w.active.get(self.kind) is self:
            w.serial += 1
            w.active[self.kind] = HBatch(self.kind, w.serial)

    def get_priority(self):
        w = _cur.w
        if w.baton is not None:
            w.baton.point(w.tidx)
        if w.prio_mode == "default":
            return BatchBase.get_priority(self)
        if w.prio_mode == "equal":
            return (0, 0)
        f = w.nsched
        top = w.prefix[f] if f < len(w.prefix) else None
        return (1 if self.kind == top else 0, KIND_RANK[self.kind])

    def _flush(self):
        w = _cur.w
        self.flush_entries += 1
        if self.flush_entries > 1:
            w.v("flush-twice", "flush body of %s#%d entered %d times" % (self.kind, self.serial, self.flush_entries))
        if not self.items:
            w.v("flush-empty", "flush body of %s#%d entered with no items" % (self.kind, self.serial))
        if w.active.get(self.kind) is self:
            w.v("flush-active", "batch %s#%d still the active batch inside its flush body" % (self.kind, self.serial))
        lids = tuple(it.glid for it in self.items)
        w.flushes.append((self.kind, lids, w.sched_flushing is self))
        if w.sched_flushing is not self and w.yield_only:
            # nothing in this program calls item.value() / batch.value() itself: every flush must be a scheduler
            # flush (chosen by priority, bracketed by the before/after events), not a side effect of unwrap()
            w.v("flush-outside-scheduler", "batch %s#%d flushed outside a scheduler flush in a program whose tasks only yield"
                % (self.kind, self.serial))
        if w.baton is not None:
            w.baton.point(w.tidx)
            for it in self.items:
                if it.owner is not w:
                    w.v("foreign-item", "batch flushed by thread %d contains an item created by another thread" % (w.tidx,))
        if w.chk_ctx:
            w.check_contexts_at_flush(self)
        self.in_window = True
        mode = w.flushmodes.get(self.kind, "ok")
        try:
            if mode == "raise":
                raise w.err(HErr, ("flush", self.kind))
            if mode == "raiseB":
                raise w.err(HBaseErr, ("flushB", self.kind))
            if mode == "nested":
                # the flush body synchronously calls an async function that blocks on another kind
                w.nested_depth += 1
                if w.nested_depth <= 2:
                    other = "b" if self.kind != "b" else "a"
                    w.waitstack.append(("nested", len(w.flushes)))
                    try:
                        hnested(other, -1 - len(w.flushes))
                    finally:
                        w.waitstack.pop()
                w.nested_depth -= 1
            if mode in ("fcancel", "fcancelraise"):
                # a backend that gives up: fails the whole batch through the public cancel(error) ...
                self.cancel(w.err(HErr, ("flushcancel", self.kind)))
                if mode == "fcancelraise":
                    # ... and then raises something else, which must not replace the error the items already carry
                    raise w.err(HErr, ("flushlate", self.kind))
                return
            if mode == "new":
                it = HItem(self.kind, -1 - len(w.flushes), "ok")
                w.extra_items.append(it)
                if it.batch is self:
                    w.v("flush-active", "item created during flush joined the batch being flushed")
            for it in self.items:
                if it.mode == "ok":
                    it.set_value(("i", it.lid))
                elif it.mode == "err":
                    it.set_error(w.err(HErr, ("item", it.lid)))
                elif it.mode == "errf":
                    it.set_error(w.err(HFalsyErr, ("itemf", it.lid)))
            if mode == "setraise":
                raise w.err(HErr, ("flushlate", self.kind))
            if mode == "setfcancel":
                # partial failure: what was served keeps its value, everything else fails with the cancel error
                self.cancel(w.err(HErr, ("flushcancel", self.kind)))
        finally:
            self.in_window = False

    def __str__(self):
        return "HBatch(%s#%d)" % (self.kind, self.serial)


class HItem(BatchItemBase):
    def __init__(self, kind, lid, mode):
        w = _cur.w
        b = w.active.get(kind)
        if b is None:
            w.serial += 1
            b = w.active[kind] = HBatch(kind, w.serial)
        BatchItemBase.__init__(self, b)
        self.kind = kind
        self.owner = w
        self.lid = lid
        self.glid = lid + w.lid_base if lid >= 0 else lid - w.lid_base
        self.mode = mode
        self.ncomputed = 0
        self.on_computed.subscribe(self._oc)

    def _oc(self, _):
        self.ncomputed += 1
        if self.ncomputed > 1:
            _cur.w.v("item-computed-twice", "item %s computed %d times" % (self.lid, self.ncomputed))
        if not self.batch.in_window and not self.batch.is_flushed():
            _cur.w.v("item-outside-flush", "item %s completed outside its batch's flush" % (self.lid,))

    def __str__(self):
        return "HItem(%s,%s)" % (self.kind, self.lid)


# --------------------------------------------------------------------------------------------------
# harness contexts


class _CtxRec(object):
    __slots__ = ("cid", "kind", "owner", "state", "nres", "npause", "obj", "entered", "exited", "log", "failed")

    def __init__(self, cid, kind, owner):
        self.cid = cid
        self.kind = kind
        self.owner = owner
        self.state = "new"  # new -> active <-> paused -> exited
        self.nres = 0
        self.npause = 0
        self.entered = False
        self.exited = False
        self.failed = False


class HCtx(AsyncContext):
    def __init__(self, rec):
        self.rec = rec

    def resume(self):
        _cur.w.ctx_event(self.rec, "r")

    def pause(self):
        _cur.w.ctx_event(self.rec, "p")


class HCtxPauseRaises(HCtx):
    # scheduler-driven pauses (not the one in __exit__) raise
    def pause(self):
        _cur.w.ctx_event(self.rec, "p")
        if not _cur.w.in_ctx_exit:
            raise _cur.w.err(HErr, ("pause", self.rec.cid))


class HCtxPauseAlwaysRaises(HCtx):
    # every pause raises, also the one issued by __exit__
    def pause(self):
        _cur.w.ctx_event(self.rec, "p")
        raise _cur.w.err(HErr, ("pause", self.rec.cid))


class HCtxResumeRaises(HCtx):
    # scheduler-driven resumes (not the one in __enter__) raise
    def resume(self):
        _cur.w.ctx_event(self.rec, "r")
        if not _cur.w.in_ctx_enter:
            raise _cur.w.err(HErr, ("resume", self.rec.cid))


class HNonAsync(NonAsyncContext):
    def __init__(self, rec):
        self.rec = rec


class HAttrTarget(object):
    def __init__(self):
        self.attr = 0


# --------------------------------------------------------------------------------------------------


class World(object):
    def __init__(self, prog, prefix=(), prio_mode="steer", conv="call", options=None, clock_step=1,
                 chk_ctx=True, keep_scheduler=False, max_stack=None, inherit=None, lid_base=0, threaded=False, baton=None, tidx=0):
        self.prog = prog
        self.flushmodes = prog.flushmodes
        self.yield_only = not (getattr(prog, "features", frozenset()) & {"iv", "bt"})
        self.prefix = prefix
        self.prio_mode = prio_mode
        self.conv = conv
        self.options = options
        self.clock_step = clock_step
        self.chk_ctx = chk_ctx
        self.keep_scheduler = keep_scheduler
        self.max_stack = max_stack
        self.viol = []
        self.threaded = threaded
        self.baton = baton
        self.tidx = tidx
        self.thread_id = None
        self.dbatch_log = []
        self.prof = None
        self.active = {}
        self.serial = 0
        self.lid_base = lid_base
        if inherit is not None:
            # the same "services": batches left pending by the previous computation stay active
            self.active = inherit.active
            self.serial = inherit.serial
        self.flushes = []  # (kind, lids, via_scheduler)
        self.decisions = []  # (menu kinds sorted, chosen kind)
        self.nsched = 0  # scheduler flush count (index of next decision)
        self.sched_flushing = None
        self.sched_stack = []
        self.tasks = {}  # tid -> AsyncTask
        self.tid_of = {}  # id(task) -> tid
        self.steps = {}  # tid -> number of steps begun
        self.started_order = []
        self.computed = {}  # tid -> count of on_computed
        self.last_yield = {}  # tid -> list of leaf futures of the pending yield
        self.sync_edge = {}  # tid -> callee tid
        self.chain = []
        self.waitstack = []  # tids of wait targets (root, sync callees)
        self.closing = set()
        self.ctx_open = {}  # cid -> rec
        self.ctx_log = []
        self.ctx_stack = []
        self.in_ctx_exit = 0
        self.in_ctx_enter = 0
        self.probes = {}
        self.auto = {}
        self.errs = []  # keep error instances alive
        self.extra_items = []
        self.shared_tasks = {}
        self.groups = {}  # tid -> (group id, position) for start-order monitor
        self.group_members = {}
        self.group_owner = {}
        self.ngroups = 0
        self.nsteps = 0
        self.sv = [AsyncScopedValue(0), AsyncScopedValue(0)]
        self.target = HAttrTarget()
        self.keep = []  # strong refs
        self.before_log = []
        self.after_log = []
        self.transitions = 0
        # deduplicate (C12): R7 in-flight map  (fn, host, key) -> task
        self.dd_body = prog.flushmodes.get("ddbody", "y1")
        self.dd_inflight = {}
        self.dd_runs = {}
        self.dd_stack = []
        self.dd_hosts = None
        self.dd_calls = 0
        self.dd_rev = 0
        self.lazy_runs = {}
        self.reuse_obj = None
        self.nested_depth = 0

    def v(self, cat, msg):
        self.viol.append((cat, msg))

    def pt(self):
        """scheduling point (THREADX): the baton may hand the processor to another thread here"""
        b = self.baton
        if b is not None:
            b.point(self.tidx)

    def err(self, cls, tag):
        e = cls(tag)
        self.errs.append(e)
        return e

    # ---------------------------------------------------------------------------- scheduler events
    def on_before(self, batch):
        self.before_log.append(batch)
        if self.baton is not None:
            self.baton.point(self.tidx)
        if isinstance(batch, _batching.DebugBatch):
            self.dbatch_log.append((batch.name, batch.index, tuple(repr(it._result) for it in batch.items)))
            for it in batch.items:
                if DBI_OWNER.get(id(it)) is not self:
                    self.v("foreign-item", "DebugBatch %r flushed by thread %d contains an item created elsewhere" % (batch.name, self.tidx))
        self.sched_stack.append(batch)  # scheduler flushes nest when a flush body re-enters the scheduler
        self.sched_flushing = batch
        sch = _sched.get_scheduler()
        if isinstance(batch, HBatch):
            menu = {batch.kind: batch}
            try:
                pending = list(sch._batches)
            except AttributeError:
                # the scheduler no longer exposes its pending set under this name: a failure of the harness,
                # reported as such (exit 2), never as a verdict on asynq
                pending = []
                self.v("harness", "cannot read TaskScheduler._batches")
            for b in pending:
                if isinstance(b, HBatch) and b.items and not b.is_flushed():
                    menu[b.kind] = b
            kinds = tuple(sorted(menu))
            self.decisions.append((kinds, batch.kind))
            # max-priority monitor (C05)
            try:
                bp = batch.get_priority()
                for k, b in menu.items():
                    if b is not batch and b.get_priority() > bp:
                        self.v("not-max-priority", "flushed %s with priority %r while pending %s has %r"
                               % (batch.kind, bp, k, b.get_priority()))
            except Exception as e:  # pragma: no cover
                self.v("harness", "priority monitor failed: %r" % (e,))
            if batch.is_flushed():
                self.v("flush-flushed", "scheduler flushes already flushed batch %s" % batch)
            if not batch.items:
                self.v("flush-empty", "scheduler flushes empty batch %s" % batch)
        # wait-target monitor (C05): nothing is flushed once the awaited computation is complete
        if self.waitstack:
            t = self.tasks.get(self.waitstack[-1])
            if t is not None and t.is_computed():
                self.v("flush-after-complete", "scheduler flush #%d of %s after wait target task %s completed"
                       % (self.nsched, batch, self.waitstack[-1]))
        self.nsched += 1
        self.transitions += 1
        if isinstance(batch, HBatch) and self.flushmodes.get(batch.kind) == "hooknested":
            # a before-flush subscriber that itself calls into asynq: synchronously runs a function that waits for an
            # item of another kind; whatever that call raises stays inside the subscriber
            self.nested_depth += 1
            if self.nested_depth <= 2:
                other = "b" if batch.kind != "b" else "a"
                self.waitstack.append(("nested", len(self.flushes)))
                try:
                    hnested(other, -1 - len(self.flushes))
                except BaseException:
                    pass
                finally:
                    self.waitstack.pop()
            self.nested_depth -= 1

    def on_after(self, batch):
        self.after_log.append(batch)
        if self.baton is not None:
            self.baton.point(self.tidx)
        if not self.sched_stack or self.sched_stack[-1] is not batch:
            self.v("events-bracket", "after-flush event for %s without matching before event" % batch)
        else:
            self.sched_stack.pop()
        self.sched_flushing = self.sched_stack[-1] if self.sched_stack else None
        if isinstance(batch, HBatch) and batch.flush_entries != 1:
            self.v("events-bracket", "after-flush event for %s whose body ran %d times" % (batch, batch.flush_entries))

    # ---------------------------------------------------------------------------- task hooks
    def register_task(self, tid, task):
        self.tasks[tid] = task
        self.tid_of[id(task)] = tid
        self.keep.append(task)
        self.computed[tid] = 0
        task.on_computed.subscribe(lambda _t, tid=tid: self._task_computed(tid))

    def _task_computed(self, tid):
        self.computed[tid] += 1
        if self.computed[tid] > 1:
            self.v("task-computed-twice", "task %s completion announced %d times" % (tid, self.computed[tid]))

    def step_begin(self, tc, sid, leaves, exc):
        """Called right after a task body is (re)entered: at its start (sid None) and after each yield."""
        tid = tc.tid
        if exc is not None and isinstance(exc, GeneratorExit):
            self.closing.add(tid)
            self.last_yield.pop(tid, None)
            return
        if _cur.w is not self:
            _cur.w.v("stale-task-ran", "a task body of an earlier computation (task %s) ran during a later computation" % (tid,))
        self.nsteps += 1
        self.transitions += 1
        n = self.steps.get(tid, 0) + 1
        self.steps[tid] = n
        self.auto[(tid, n)] = (self.sv[0]._value, self.sv[1]._value, self.target.attr)
        if self.baton is not None:
            self.baton.point(self.tidx)
            if _sched.get_scheduler() is not self.scheduler:
                self.v("foreign-scheduler", "get_scheduler() inside task %s is not this thread's scheduler" % (tid,))
            if threading.get_ident() != self.thread_id:
                self.v("foreign-thread", "task %s of thread %d runs on another thread" % (tid, self.tidx))
        at = _sched.get_active_task()
        if sid is None:
            self.started_order.append(tid)
            t = self.tasks.get(tid)
            if t is None:
                # root called synchronously / via a convention that hides the task object
                if at is not None and id(at) not in self.tid_of:
                    self.register_task(tid, at)
            g = self.groups.get(tid)
            if g is not None:
                # a member that some OTHER task (not the one that yielded the list) is awaiting by now was scheduled
                # depth-first through that task, not by the list: the written order does not govern it
                me = self.tasks.get(tid)
                owner = self.group_owner.get(g[0])
                for t2, ly in self.last_yield.items():
                    if t2 != owner and me is not None and any(lf is me for lf in ly):
                        g = None
                        break
            if g is not None:
                gid, pos = g
                for (otid, opos) in self.group_members[gid]:
                    if opos < pos and self.steps.get(otid, 0) == 0:
                        ot = self.tasks.get(otid)
                        if ot is not None and not ot.is_computed():
                            self.v("start-order", "task %s (position %d) started before task %s (position %d) yielded in the same list/tuple"
                                   % (tid, pos, otid, opos))
        t = self.tasks.get(tid)
        if t is not None:
            if at is not t:
                self.v("active-task", "get_active_task() is %s inside task %s (step %d)" % (self.tid_of.get(id(at), at), tid, n))
            if t.is_computed():
                self.v("step-after-computed", "task %s runs step %d after it completed" % (tid, n))
        if leaves is not None:
            for lf in leaves:
                if isinstance(lf, FutureBase) and not lf.is_computed():
                    self.v("resumed-uncomputed", "task %s resumed (step %d) while a future it yielded is uncomputed: %s" % (tid, n, lf))
                    break
            # C02: delivery of the first failing future's own error instance
            exp = None
            for lf in leaves:
                if isinstance(lf, FutureBase):
                    if lf.is_computed() and lf._error is not None:
                        exp = lf._error
                        break
                elif lf is not None:
                    exp = TypeError
                    break
            if exp is None:
                if exc is not None:
                    self.v("spurious-error", "task %s received %r at a yield whose futures all succeeded" % (tid, exc))
            elif exp is TypeError:
                if not isinstance(exc, TypeError):
                    self.v("nonfuture-typeerror", "task %s yielded a non-future first-failing leaf but received %r" % (tid, exc))
            elif exc is not exp:
                self.v("error-identity", "task %s received %r, expected the failing future's own error %r" % (tid, exc, exp))
        self.last_yield.pop(tid, None)
        self.chain.append(tid)
        if self.chk_ctx and self.ctx_open:
            self.check_contexts_at_step(tid)

    def pre_yield(self, tc, sid, struct, leaves):
        tid = tc.tid
        if self.baton is not None:
            self.baton.point(self.tidx)
        if self.chain and self.chain[-1] == tid:
            self.chain.pop()
        else:
            self.v("harness", "chain mismatch at yield of %s: %s" % (tid, self.chain))
        self.last_yield[tid] = leaves
        # start-order groups (list/tuple only, no dict at any level)
        if struct.__class__ in (list, tuple) and _no_dict(struct):
            members = []
            pos = 0
            for lf in leaves:
                if lf.__class__ is AsyncTask or isinstance(lf, AsyncTask):
                    otid = self.tid_of.get(id(lf))
                    if otid is not None and self.steps.get(otid, 0) == 0 and otid not in self.groups \
                            and all(m[0] != otid for m in members):
                        members.append((otid, pos))
                pos += 1
            if len(members) > 1:
                gid = self.ngroups
                self.ngroups += 1
                self.group_members[gid] = members
                self.group_owner[gid] = tid
                for otid, p in members:
                    self.groups[otid] = (gid, p)

    def body_exit(self, tc):
        tid = tc.tid
        if tid in self.closing:
            return
        if self.chain and self.chain[-1] == tid:
            self.chain.pop()
        else:
            self.v("harness", "chain mismatch at exit of %s: %s" % (tid, self.chain))

    # ---------------------------------------------------------------------------- leaves
    def make_leaf(self, tc, lf, made):
        op = lf[0]
        if op == "c":
            if len(lf) > 3 and lf[3] == "cu":
                # the same child, called with an extra argument whose repr() raises (diagnostics must cope)
                t = hunrepr.asynq(lf[2], _UNREPR)
            elif len(lf) > 3:
                # the same child, reached through async_call on a make_async_decorator-wrapped function
                t = async_call.asynq(hwrapped, lf[2])
            else:
                t = htask.asynq(lf[2])
            self.register_task(lf[2].tid, t)
            r = t
        elif op == "i":
            r = HItem(lf[2], lf[1], lf[3])
            self.keep.append(r)
        elif op == "k":
            r = ConstFuture(("k", lf[1]))
        elif op == "n":
            r = None
        elif op == "ef":
            r = ErrorFuture(self.err(HErr, ("ef", lf[1])))
        elif op == "nf":
            r = 5
        elif op == "lz":
            lid = lf[1]

            def prov(lid=lid, ok=(lf[2] == "ok")):
                n = self.lazy_runs[lid] = self.lazy_runs.get(lid, 0) + 1
                if n > 1:
                    self.v("provider-ran-twice", "the value provider of lazily computed future %s ran %d times" % (lid, n))
                if ok:
                    return ("z", lid)
                raise self.err(HErr, ("lz", lid))
            r = Future(prov)
            self.keep.append(r)
        elif op == "sh":
            idx = lf[2]
            r = self.shared_tasks.get(idx)
            if r is None:
                sc = self.prog.shared[idx]
                r = htask.asynq(sc)
                self.register_task(sc.tid, r)
                self.shared_tasks[idx] = r
        elif op == "re":
            return made[lf[2] % len(made)] if made else None
        elif op == "dd":
            r = self.dd_call(lf[2], lf[3], lf[4])
        elif op == "bt":
            r = self.active.get(lf[2])
            if r is None:
                self.serial += 1
                r = self.active[lf[2]] = HBatch(lf[2], self.serial)
            self.keep.append(r)
        elif op == "dbi":
            if self.baton is not None:
                self.baton.point(self.tidx)
            r = _batching.DebugBatchItem(lf[2], ("dbi", lf[1]))
            DBI_OWNER[id(r)] = self
            self.keep.append(r)
        else:
            raise ValueError(op)
        if self.baton is not None:
            self.baton.point(self.tidx)
        made.append(r)
        return r

    # ---------------------------------------------------------------------------- deduplicate (R7)
    def dd_target(self, fn):
        if self.dd_hosts is None:
            self.dd_hosts = {"x": DDHost("x"), "y": DDHost("y")}
        if fn == "f":
            return dd_f, ("f", None)
        if fn == "g":
            return dd_g, ("g", None)
        if fn == "mx":
            return self.dd_hosts["x"].m, ("m", "x")
        if fn == "my":
            return self.dd_hosts["y"].m, ("m", "y")
        if fn == "s":
            return DDHost.s, ("s", None)
        if fn == "sx":  # static method reached through an instance: same function, same key space
            return self.dd_hosts["x"].s, ("s", None)
        if fn == "k":  # var-keyword signature: extra options are part of the key
            return dd_k, ("k", None)
        if fn in ("p", "q"):  # two different functions with identical module and __name__
            return (dd_p if fn == "p" else dd_q), (fn, None)
        if fn == "h":  # custom keygetter whose result depends on state that the body changes
            return dd_h, ("h", None)
        raise ValueError(fn)

    def dd_call(self, fn, key, sp):
        target, ident = self.dd_target(fn)
        rk = ident + (key,)
        if fn == "h":
            rk = rk + (self.dd_rev,)
        if fn == "k":
            rk = rk + (sp,)
        self.dd_calls += 1
        prev = self.dd_inflight.get(rk)
        in_flight = prev is not None and not prev.is_computed()
        from_inside = rk in self.dd_stack
        if sp == "pos":
            t = target.asynq(key, 0)
        elif sp == "kw":
            t = target.asynq(key=key, mode=0)
        elif sp == "def":
            t = target.asynq(key)
        elif sp == "mix":
            t = target.asynq(key, mode=0)
        elif sp == "o1":
            t = target.asynq(key, timeout=1)
        elif sp == "o2":
            t = target.asynq(key, timeout=2)
        else:
            raise ValueError(sp)
        self.keep.append(t)
        if self.baton is not None:
            o = TASK_OWNER.get(id(t))
            if o is not None and o is not self:
                self.v("foreign-task", "deduplicated call %s(%s) on thread %d returned a task created by another thread" % (fn, key, self.tidx))
            TASK_OWNER[id(t)] = self
        if in_flight and not from_inside:
            if t is not prev:
                self.v("dedup-identity", "call %s(%s) [%s] while the same key is in flight returned a new task instead of the in-flight one" % (fn, key, sp))
        else:
            if prev is not None and t is prev:
                if from_inside:
                    self.v("dedup-identity", "call %s(%s) from inside its own running body returned the running task" % (fn, key))
                else:
                    self.v("dedup-identity", "call %s(%s) after the earlier execution completed (or was dirtied) returned the old task" % (fn, key))
            for ok, ot in self.dd_inflight.items():
                if ot is t and ok != rk:
                    self.v("dedup-cross-key", "call %s(%s) returned the task of a different key/function/instance %s" % (fn, key, ok))
            if not from_inside:
                self.dd_inflight[rk] = t
        return t

    def dd_dirty(self, fn, key):
        target, ident = self.dd_target(fn)
        target.dirty(key)
        self.dd_inflight.pop(ident + (key,), None)

    def dd_post(self):
        table = _tools.DeduplicateDecorator.tasks
        me = threading.current_thread()
        for k, t in list(table.items()):
            if k[1] is me and t.is_computed():
                self.v("dedup-table-residue", "deduplicate table still holds a completed task for key %r" % (k[0],))
        for rk, n in self.dd_runs.items():
            pass

    def build(self, tc, s, made, leaves):
        op = s[0]
        if op == "T":
            return tuple([self.build(tc, x, made, leaves) for x in s[1]])
        if op == "L":
            return [self.build(tc, x, made, leaves) for x in s[1]]
        if op == "D":
            return {k: self.build(tc, x, made, leaves) for k, x in s[1]}
        r = self.make_leaf(tc, s, made)
        leaves.append(r)
        return r

    def sync_call(self, tc, st):
        callee = st[2]
        conv = st[3]
        self.sync_edge[tc.tid] = callee.tid
        self.waitstack.append(callee.tid)
        try:
            if conv == "call":
                return htask(callee)
            t = htask.asynq(callee)
            self.register_task(callee.tid, t)
            return t.value()
        finally:
            self.waitstack.pop()
            self.sync_edge.pop(tc.tid, None)
            t = self.tasks.get(tc.tid)
            at = _sched.get_active_task()
            if t is not None and at is not t:
                self.v("active-task", "get_active_task() is %s in task %s after a nested synchronous call returned"
                       % (self.tid_of.get(id(at), at), tc.tid))

    def item_value(self, tc, st):
        it = HItem(st[2], st[3], "ok")
        self.keep.append(it)
        return it.value()

    def probe(self, tc, st):
        t = self.tasks.get(tc.tid)
        at = _sched.get_active_task()
        if t is not None and at is not t:
            self.v("active-task", "get_active_task() is %s at a probe inside task %s" % (self.tid_of.get(id(at), at), tc.tid))
        self.probes[st[1]] = (self.sv[0].get(), self.sv[1](), self.target.attr)

    # ---------------------------------------------------------------------------- contexts
    def make_ctx(self, tc, st):
        kind = st[2]
        rec = _CtxRec(st[1], kind, tc.tid)
        if kind == "A":
            rec.obj = HCtx(rec)
        elif kind == "N":
            rec.obj = HNonAsync(rec)
        elif kind == "Xp":
            rec.obj = HCtxPauseRaises(rec)
        elif kind == "Xr":
            rec.obj = HCtxResumeRaises(rec)
        elif kind == "Xq":
            rec.obj = HCtxPauseAlwaysRaises(rec)
        elif kind == "R0":
            # ONE override context object, reused by every R0 block of this execution (after it completed a block)
            # (one object per task: a context object must not be entered by two tasks at the same time)
            if self.reuse_obj is None:
                self.reuse_obj = {}
            obj = self.reuse_obj.get(tc.tid)
            if obj is None:
                obj = self.reuse_obj[tc.tid] = SpySVOverride(self.sv[0], ("ovR",))
            obj.rec = rec
            rec.obj = obj
        elif kind in ("S0", "S1"):
            rec.obj = SpySVOverride(self.sv[int(kind[1])], ("ov", st[1]))
            rec.obj.rec = rec
        elif kind == "P0":
            rec.obj = SpyAttrOverride(self.target, "attr", ("ov", st[1]))
            rec.obj.rec = rec
        else:
            raise ValueError(kind)
        self.keep.append(rec.obj)
        return rec

    def ctx_event(self, rec, ev):
        if self.baton is not None:
            self.baton.point(self.tidx)
        self.ctx_log.append((rec.cid, ev))
        self.transitions += 1
        if rec.kind == "N":
            return
        if rec.exited:
            self.v("ctx-after-exit", "context %s %s after its block was left" % (rec.cid, "resumed" if ev == "r" else "paused"))
        if ev == "r":
            rec.nres += 1
            if rec.state == "active":
                self.v("ctx-alternation", "context %s resumed twice in a row" % rec.cid)
            if rec.state == "new" and not self.in_ctx_enter:
                self.v("ctx-alternation", "context %s resumed before being entered" % rec.cid)
            rec.state = "active"
            self.ctx_stack.append(rec.cid)
        else:
            rec.npause += 1
            if rec.state != "active":
                self.v("ctx-alternation", "context %s paused while %s" % (rec.cid, rec.state))
            else:
                if self.ctx_stack and self.ctx_stack[-1] == rec.cid:
                    self.ctx_stack.pop()
                else:
                    self.v("ctx-lifo", "context %s paused but the most recently resumed active context is %s"
                           % (rec.cid, self.ctx_stack[-1] if self.ctx_stack else None))
                    if rec.cid in self.ctx_stack:
                        self.ctx_stack.remove(rec.cid)
            rec.state = "paused"

    def ctx_entered(self, rec):
        rec.entered = True
        self.ctx_open[rec.cid] = rec
        if rec.kind != "N" and rec.state != "active":
            self.v("ctx-alternation", "context %s not active right after entering its block (%s)" % (rec.cid, rec.state))

    def ctx_left(self, rec):
        self.ctx_open.pop(rec.cid, None)
        rec.exited = True
        if rec.kind != "N" and rec.entered and rec.state != "paused":
            self.v("ctx-alternation", "context %s is %s after its block was left (last call must be a pause)" % (rec.cid, rec.state))

    # awaits graph helpers -------------------------------------------------------------------------
    def _succ(self, tid):
        out = []
        c = self.sync_edge.get(tid)
        if c is not None:
            out.append(c)
        ly = self.last_yield.get(tid)
        if ly:
            t = self.tasks.get(tid)
            if t is None or not t.is_computed():
                for lf in ly:
                    if isinstance(lf, AsyncTask) and not lf.is_computed():
                        o = self.tid_of.get(id(lf))
                        if o is not None:
                            out.append(o)
        return out

    def _reach(self, src, dst, without=None):
        if src == dst:
            return True
        seen = {src}
        st = [src]
        while st:
            x = st.pop()
            for y in self._succ(x):
                if y == without or y in seen:
                    continue
                if y == dst:
                    return True
                seen.add(y)
                st.append(y)
        return False

    def check_contexts_at_step(self, x):
        root = self.waitstack[0] if self.waitstack else None
        for rec in self.ctx_open.values():
            if rec.kind in ("N",) or rec.failed:
                continue
            T = rec.owner
            if T in self.closing:
                continue
            if T in self.chain:
                if rec.state != "active":
                    self.v("ctx-must-active", "context %s of task %s is %s while that task's own code runs (running: %s, chain %s)"
                           % (rec.cid, T, rec.state, x, self.chain))
                continue
            reaches = self._reach(T, x)
            if not reaches:
                if rec.state == "active":
                    self.v("ctx-must-paused", "context %s of task %s is active while task %s, which it is not awaiting, runs"
                           % (rec.cid, T, x))
            elif root is not None and T != root and not self._reach(root, x, without=T):
                if rec.state != "active":
                    self.v("ctx-must-active", "context %s of task %s is %s while task %s, awaited only through it, runs"
                           % (rec.cid, T, rec.state, x))
            elif T == root and rec.state != "active":
                self.v("ctx-must-active", "context %s of root task is %s while task %s, which it awaits, runs" % (rec.cid, rec.state, x))

    def check_contexts_at_flush(self, batch):
        x = self.chain[-1] if self.chain else None
        for rec in self.ctx_open.values():
            if rec.kind in ("N",) or rec.failed:
                continue
            T = rec.owner
            if T in self.closing:
                continue
            if T in self.chain:
                if rec.state != "active":
                    self.v("ctx-must-active", "context %s of running task %s is %s during a flush issued from its own synchronous call"
                           % (rec.cid, T, rec.state))
                continue
            if x is None or not self._reach(T, x):
                if rec.state == "active":
                    self.v("ctx-active-at-flush", "context %s of suspended task %s is active while batch %s is flushed"
                           % (rec.cid, T, batch))

    # ---------------------------------------------------------------------------- run
    def run(self):
        _cur.w = self
        self.thread_id = threading.get_ident()
        if not self.threaded:
            # process-wide state: in THREADX runs the driver sets it once before the threads start
            for n, val in _DEFAULTS.items():
                setattr(_dbg.options, n, val)
            if self.options:
                for n, val in self.options.items():
                    setattr(_dbg.options, n, val)
            if self.max_stack is not None:
                _dbg.options.MAX_TASK_STACK_SIZE = self.max_stack
            install_clock(Clock(self.clock_step))
            _tools.DeduplicateDecorator.tasks.clear()
        if not self.keep_scheduler:
            _sched.reset()
            if not self.threaded:
                # a fresh thread must find fresh per-thread state by itself (C16): do not mask that by resetting it
                _profiler.reset()
                _batching._debug_batch_state.batches.clear()
        sch = _sched.get_scheduler()
        self.scheduler = sch
        sch.on_before_batch_flush.subscribe(self.on_before)
        sch.on_after_batch_flush.subscribe(self.on_after)
        prog = self.prog
        root = prog.root
        self.waitstack.append(root.tid)
        conv = self.conv
        try:
            try:
                if conv == "call":
                    val = htask(root)
                elif conv == "av":
                    t = htask.asynq(root)
                    self.register_task(root.tid, t)
                    val = t.value()
                elif conv == "handoff":
                    # the task object is made by another thread (work prepared elsewhere and handed over) and computed
                    # here: it must run on THIS thread's scheduler, exactly as if it had been made here
                    import threading as _thr
                    box = []
                    th = _thr.Thread(target=lambda: box.append(htask.asynq(root)), name="worker")
                    th.start()
                    th.join()
                    t = box[0]
                    self.register_task(root.tid, t)
                    val = t.value()
                elif conv == "yielded":
                    val = hparent(root)
                elif conv == "async_call":
                    t = async_call.asynq(htask, root)
                    self.register_task(root.tid, t)
                    val = t.value()
                elif conv == "async_call_sync":
                    val = async_call(htask, root)
                else:
                    raise ValueError(conv)
                out = ("ok", val)
            except BaseException as e:
                if isinstance(e, (KeyboardInterrupt, SystemExit, MemoryError)):
                    raise
                out = ("err", tok(e))
                self.exc = e
        finally:
            try:
                sch.on_before_batch_flush.unsubscribe(self.on_before)
                sch.on_after_batch_flush.unsubscribe(self.on_after)
            except Exception:
                pass
        self.waitstack.pop()
        self.outcome = out
        if _dbg.options.COLLECT_PERF_STATS:
            st = _profiler.flush()
            self.prof = tuple(sorted(str(e.get("name")) for e in st))
        if out[0] == "err":
            rt = self.tasks.get(root.tid)
            if rt is not None and rt.is_computed() and rt._error is not self.exc:
                self.v("error-identity", "value() raised %r but the task's error() is %r" % (self.exc, rt._error))
        self.post_checks()
        return out

    def post_checks(self):
        sch = self.scheduler
        if _sched.get_scheduler() is not sch and not getattr(self, "expect_reset", False):
            self.sched_replaced = True
        else:
            self.sched_replaced = False
        at = _sched.get_active_task()
        if at is not None:
            self.v("active-task-after", "get_active_task() is %s after the outermost call returned" % (self.tid_of.get(id(at), at),))
        cur = _sched.get_scheduler()
        try:
            nt = len(cur._tasks)
        except Exception:
            nt = 0  # the stack is not readable under this name any more: nothing to judge here (canaries still do)
        if nt != 0:
            self.v("scheduler-residue", "scheduler retains %d task(s) on its stack after the computation ended (%s)"
                   % (nt, self.outcome[0]))
        try:
            str(cur)
            repr(cur)
        except Exception as e:
            self.v("scheduler-str", "str(scheduler) raised %r after the computation" % (e,))
        for tid, t in self.tasks.items():
            try:
                ds = t._dependencies_scheduled
            except AttributeError:
                ds = False
            if ds:
                self.v("deps-flag-residue", "task %s keeps _dependencies_scheduled set after the computation" % (tid,))
        if len(self.before_log) != len(self.after_log):
            self.v("events-bracket", "%d before-flush events but %d after-flush events" % (len(self.before_log), len(self.after_log)))
        # every scheduler flush of a harness batch ran its body exactly once
        seen = set()
        for b in self.before_log:
            if id(b) in seen:
                self.v("flush-twice", "before-flush event fired twice for %s" % b)
            seen.add(id(b))
        # scoped values restored
        if self.sv[0].get() != 0 or self.sv[1].get() != 0 or self.target.attr != 0:
            self.v("override-not-restored", "after the computation: sv0=%r sv1=%r attr=%r (expected 0)"
                   % (self.sv[0].get(), self.sv[1].get(), self.target.attr))
        if self.ctx_stack:
            self.v("ctx-left-active", "contexts still active after the computation: %s" % (self.ctx_stack,))
        if self.dd_calls:
            self.dd_post()

    def dispose(self):
        """detach the world: from here on nothing is judged.  The caller drops its reference and, if
        tasks were left unfinished, collects garbage at once so that their generators are closed now
        (with the monitors detached) and not at an arbitrary moment of a later execution."""
        self.chk_ctx = False
        self.viol = []
        if _cur.w is self:
            _cur.w = NULLW


class _NullWorld(object):
    """stands in for the current world between executions: swallows every callback"""

    prio_mode = "default"
    chk_ctx = False
    in_ctx_exit = 1
    in_ctx_enter = 1
    active = {}

    def __getattr__(self, name):
        return self._noop

    def _noop(self, *a, **k):
        return None


NULLW = _NullWorld()
_Cur.w = NULLW


def _no_dict(s):
    c = s.__class__
    if c is dict:
        return False
    if c is list or c is tuple:
        for x in s:
            if not _no_dict(x):
                return False
    return True


from asynq.scoped_value import _AsyncScopedValueOverrideContext as _SVO


class SpySVOverride(_SVO):
    """the real override context; resume/pause additionally logged"""

    def resume(self):
        _cur.w.ctx_event(self.rec, "r")
        _SVO.resume(self)

    def pause(self):
        _cur.w.ctx_event(self.rec, "p")
        _SVO.pause(self)


class SpyAttrOverride(async_override):
    def resume(self):
        _cur.w.ctx_event(self.rec, "r")
        async_override.resume(self)

    def pause(self):
        _cur.w.ctx_event(self.rec, "p")
        async_override.pause(self)


class _CM(object):
    """`with _CM(w, rec):` == `with rec.obj:` plus enter/exit bookkeeping for the monitors"""

    __slots__ = ("w", "rec")

    def __init__(self, w, rec):
        self.w = w
        self.rec = rec

    def __enter__(self):
        w = self.w
        w.in_ctx_enter += 1
        try:
            self.rec.obj.__enter__()
        finally:
            w.in_ctx_enter -= 1
        w.ctx_entered(self.rec)

    def __exit__(self, a, b, c):
        w = self.w
        w.in_ctx_exit += 1
        try:
            return self.rec.obj.__exit__(a, b, c)
        finally:
            w.in_ctx_exit -= 1
            w.ctx_left(self.rec)


# --------------------------------------------------------------------------------------------------
# the interpreter: real generators with real with/try statements


def _block(w, tc, stmts, rec, made):
    for st in stmts:
        op = st[0]
        if op == "y":
            leaves = []
            struct = w.build(tc, st[2], made, leaves)
            w.pre_yield(tc, st[1], struct, leaves)
            try:
                val = yield struct
            except BaseException as e:
                w.step_begin(tc, st[1], leaves, e)
                raise
            w.step_begin(tc, st[1], leaves, None)
            w.check_value(tc, struct, val)
            rec.append(val)
        elif op == "try":
            try:
                yield from _block(w, tc, st[2], rec, made)
            except Exception as e:
                rec.append(("caught", tok(e)))
                yield from _block(w, tc, st[3], rec, made)
        elif op == "with":
            with _CM(w, w.make_ctx(tc, st)):
                yield from _block(w, tc, st[3], rec, made)
        elif op == "ovl":
            cm1 = _CM(w, w.make_ctx(tc, ("with", st[1], "A")))
            cm2 = _CM(w, w.make_ctx(tc, ("with", -1 - st[1], "A")))
            cm1.__enter__()
            cm2.__enter__()
            try:
                yield from _block(w, tc, st[2], rec, made)
            except BaseException:
                ei = sys.exc_info()
                cm1.__exit__(*ei)
                cm2.__exit__(*ei)
                raise
            cm1.__exit__(None, None, None)  # the FIRST context is left first; the second stays open over st[3]
            try:
                yield from _block(w, tc, st[3], rec, made)
            except BaseException:
                cm2.__exit__(*sys.exc_info())
                raise
            cm2.__exit__(None, None, None)
        elif op == "sync":
            rec.append(w.sync_call(tc, st))
        elif op == "raise":
            raise w.err(HErr, ("raise", tc.tid, st[1]))
        elif op == "probe":
            w.probe(tc, st)
        elif op == "res":
            asynq.result(("t", tc.tid, tuple(rec)))
        elif op == "mk":
            w.make_leaf(tc, st[2], made)
        elif op == "iv":
            rec.append(w.item_value(tc, st))
        elif op == "cancel":
            b = w.active.get(st[2])
            if b is not None:
                b.cancel()
        elif op == "ddirty":
            w.dd_dirty(st[2], st[3])
        else:
            raise ValueError(op)


_DD_IDX = {("k", None): 8, ("p", None): 6, ("q", None): 7, ("h", None): 5, ("f", None): 0, ("g", None): 1, ("m", "x"): 2, ("m", "y"): 3, ("s", None): 4}


def _dd_body(fn, host, key, extra=()):
    """body shared by all deduplicated harness functions; behaviour chosen by the program"""
    w = _cur.w
    if fn == "h":
        extra = (w.dd_rev,)  # the key this execution was registered under (the body bumps the revision below)
    rk = (fn, host, key) + tuple(extra)
    run = w.dd_runs.get(rk, 0) + 1
    w.dd_runs[rk] = run
    base = -(100000 + _DD_IDX[(fn, host)] * 10000 + key * 1000 + (100 if extra == ("o2",) else 0) + run * 10)
    kind = w.dd_body
    w.dd_stack.append(rk)
    if fn == "h":
        w.dd_rev += 1
    try:
        if kind == "ret":
            return ("dd", fn, host, key, run)
        nself = w.dd_runs[("selfsync", fn, host, key)] = w.dd_runs.get(("selfsync", fn, host, key), 0) + 1
        if kind == "selfsync" and nself == 1:
            # synchronous re-entry with the same key while this body is running (escape hatch)
            inner = w.dd_call(fn if fn != "m" else "m" + (host or "x"), key, "o1" if fn == "k" else "pos").value()
        else:
            inner = None
        it = HItem("a", base, "ok")
        w.dd_stack.pop()
        try:
            v1 = yield it
        finally:
            w.dd_stack.append(rk)
        if kind == "y1raise":
            raise w.err(HErr, ("dd", fn, host, key, run))
        if kind == "y2":
            it2 = HItem("b", base - 1, "ok")
            w.dd_stack.pop()
            try:
                v2 = yield it2
            finally:
                w.dd_stack.append(rk)
            return ("dd", fn, host, key, run, v1, v2)
        return ("dd", fn, host, key, run, v1, inner)
    finally:
        w.dd_stack.pop()


@_tools.deduplicate()
@_asynq_deco()
def dd_f(key, mode=0):
    return (yield from _dd_body("f", None, key))


@_tools.deduplicate()
@_asynq_deco()
def dd_g(key, mode=0):
    return (yield from _dd_body("g", None, key))


@_tools.deduplicate()
@_asynq_deco()
def dd_k(key, **opts):
    return (yield from _dd_body("k", None, key, ("o1",) if opts.get("timeout") == 1 else ("o2",)))


def _dd_factory(tag):
    @_tools.deduplicate()
    @_asynq_deco()
    def dd_same(key, mode=0):
        return (yield from _dd_body(tag, None, key))

    return dd_same


dd_p = _dd_factory("p")
dd_q = _dd_factory("q")


def _dd_h_key(args, kwargs):
    return (args[0] if args else kwargs["key"], _cur.w.dd_rev)


@_tools.deduplicate(keygetter=_dd_h_key)
@_asynq_deco()
def dd_h(key, mode=0):
    return (yield from _dd_body("h", None, key))


class DDHost(object):
    def __init__(self, name):
        self.name = name

    def __repr__(self):
        return "DDHost(%s)" % self.name

    @_tools.deduplicate()
    @_asynq_deco()
    def m(self, key, mode=0):
        return (yield from _dd_body("m", self.name, key))

    @_tools.deduplicate()
    @_asynq_deco()
    @staticmethod
    def s(key, mode=0):
        return (yield from _dd_body("s", None, key))


@_asynq_deco()
def htask(tc):
    w = _cur.w
    w.step_begin(tc, None, None, None)
    rec, made = [], []
    try:
        yield from _block(w, tc, tc.stmts, rec, made)
    finally:
        w.body_exit(tc)
    return ("t", tc.tid, tuple(rec))


class _Unreprable(object):
    """stands for a handle whose repr() fails once it is closed"""

    def __repr__(self):
        raise RuntimeError("repr() of a closed handle")


_UNREPR = _Unreprable()


@_asynq_deco()
def hunrepr(tc, handle):
    w = _cur.w
    w.step_begin(tc, None, None, None)
    rec, made = [], []
    try:
        yield from _block(w, tc, tc.stmts, rec, made)
    finally:
        w.body_exit(tc)
    return ("t", tc.tid, tuple(rec))


def _hwrap(*args, **kwargs):
    return htask.asynq(*args, **kwargs)


hwrapped = asynq.make_async_decorator(htask, _hwrap, "hwrapped")


@_asynq_deco()
def hnested(kind, lid):
    it = HItem(kind, lid, "ok")
    _cur.w.keep.append(it)
    return (yield it)


@_asynq_deco()
def hparent(tc):
    t = htask.asynq(tc)
    _cur.w.register_task(tc.tid, t)
    return (yield t)


def _check_value(self, tc, struct, val):
    """the value received equals the yielded structure with each future replaced by its value, same
    container types (unwrap spec), judged against the futures' own .value()"""
    try:
        exp = _subst(struct)
    except BaseException as e:
        self.v("value-shape", "task %s received %r but a yielded future failed (%r)" % (tc.tid, val, e))
        return
    if not _same(exp, val):
        self.v("value-shape", "task %s received %r for yielded structure with values %r" % (tc.tid, val, exp))


def _subst(s):
    c = s.__class__
    if s is None:
        return None
    if c is tuple:
        return tuple([_subst(x) for x in s])
    if c is list:
        return [_subst(x) for x in s]
    if c is dict:
        return {k: _subst(x) for k, x in s.items()}
    return s.value()


def _same(a, b):
    if a.__class__ is not b.__class__:
        return False
    c = a.__class__
    if c is tuple or c is list:
        if len(a) != len(b):
            return False
        for x, y in zip(a, b):
            if not _same(x, y):
                return False
        return True
    if c is dict:
        if list(a.keys()) != list(b.keys()):
            return False
        for k in a:
            if not _same(a[k], b[k]):
                return False
        return True
    return a == b


World.check_value = _check_value
