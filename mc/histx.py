"""HISTX engine (DESIGN.md 4.2): explicit-state breadth-first search over operation histories of REAL asynq
objects, in lock-step with a reference state machine written in plain Python.

A *state* is identified with a history (root descriptor + tuple of operations): live futures, generators and
batches cannot be copied, so every expansion builds **fresh real objects** and replays the history.  The search
is exhaustive up to the depth bound: every operation of the (state dependent) menu is applied to every distinct
canonical state; two histories are merged only when their canonical state = (reference-model state, observable
implementation state) is equal.  Nothing is sampled and nothing depends on time or randomness.

A check supplies a *world factory* `make(root) -> world`; a world owns the fresh real objects AND the reference
machine and offers

    world.menu()        -> list of JSON-able operations applicable in the current state
    world.apply(op)     -> list of (sig, msg): applies op to the real objects, steps the reference machine,
                           compares the answer / the observable state with it (lock-step oracle)
    world.canon()       -> hashable canonical state
    world.nontrivial()  -> bool (rule stated by the check)
    world.tail()        -> list of operations of the fixed *probe tail* applied (destructively) to the live
                           objects after the last operation of every executed history; judged by the same
                           lock-step oracle, and the normalised answers must be identical for all histories
                           that reach the same canonical state (differential guard against a too coarse canon)
    world.last          -> normalised answer of the last applied operation
    world.nops          -> number of operations applied to the real objects so far
    world.stats         -> {name: int} counters of what the oracle judged (summed over executed histories)

A history whose *new operation* violates the oracle is reported and not extended (model and implementation are out
of step); a violation met only in the probe tail is reported as the plain history `prefix + tail operations` and
the state is still extended, so that the breadth-first order also finds the shortest direct history.

Counting (reported honestly, see the RULE of each check):
    evals       = histories executed (one fresh world, replay of the prefix, one new operation, probe tail);
                  = number of (distinct state, operation) edges + number of roots
    states      = distinct canonical states (roots included)
    transitions = operations applied to real objects (replayed prefix operations, the new operation and the
                  probe tail operations all count: each one is executed and compared)
    nontrivial  = distinct canonical states that are non-trivial by the check's rule
"""
import time

PER_SIG = 3  # shortest violating histories kept per job and signature (the total is always counted)


class HErr(Exception):
    def __init__(self, tag):
        Exception.__init__(self, tag)
        self.tag = tag


class HFalsyErr(HErr):
    """an exception instance whose truth value is False: an error must be recognised by `is not None`"""

    def __len__(self):
        return 0


class HBaseErr(BaseException):
    def __init__(self, tag):
        BaseException.__init__(self, tag)
        self.tag = tag


class HFalsyBaseErr(HBaseErr):
    """a BaseException instance whose truth value is False"""

    def __len__(self):
        return 0


class Val(object):
    """an opaque value with identity"""

    __slots__ = ("tag",)

    def __init__(self, tag):
        self.tag = tag

    def __repr__(self):
        return "Val(%r)" % (self.tag,)


class Tokens(object):
    """identity registry: real object -> stable, JSON-able, hashable token"""

    def __init__(self, none_marker=None):
        self.by_id = {}
        self.keep = []
        self.none_marker = none_marker

    def reg(self, obj, token):
        self.by_id[id(obj)] = token
        self.keep.append(obj)  # keeps id() unique for the life of the world
        return obj

    def tok(self, x):
        if x is None:
            return None
        if x is True or x is False:
            return x
        t = self.by_id.get(id(x))
        if t is not None:
            return t
        if x is self.none_marker:
            return "<uncomputed-marker>"
        if isinstance(x, BaseException):
            return ("exc", type(x).__name__)
        if isinstance(x, tuple):
            return ("tuple",) + tuple(self.tok(y) for y in x)
        return ("obj", type(x).__name__)


def call(fn, *args):
    """-> ("ret", value) | ("exc", exception); harness-fatal exceptions pass through"""
    try:
        return ("ret", fn(*args))
    except BaseException as e:
        if isinstance(e, (KeyboardInterrupt, SystemExit, MemoryError)):
            raise
        return ("exc", e)


def reset_asynq():
    import asynq
    import asynq.scheduler
    import asynq.profiler
    import asynq.tools
    import asynq.batching

    asynq.scheduler.reset()
    asynq.profiler.reset()
    asynq.tools.DeduplicateDecorator.tasks.clear()
    asynq.batching._debug_batch_state.batches.clear()


def _jsonable(x):
    if isinstance(x, (tuple, list)):
        return [_jsonable(y) for y in x]
    return x


def _as_op(x):
    return tuple(_as_op(y) if isinstance(y, list) else y for y in x) if isinstance(x, (list, tuple)) else x


def run_history(make, root, ops, tail=True):
    """Executes one history on fresh objects.  -> (world, violations [(sig, msg, index)], tail fingerprint)"""
    w = make(root)
    out = []
    for i, op in enumerate(ops):
        for sig, msg in w.apply(op):
            out.append((sig, msg, i))
        if out:
            return w, out, None  # model and implementation are out of step from here on
    fp = None
    if tail:
        fp = []
        for j, op in enumerate(w.tail()):
            for sig, msg in w.apply(op):
                out.append((sig, "%s [probe tail #%d %r after the history]" % (msg, j, op), len(ops) + j))
            if out:
                break
            fp.append(w.last)
        fp = tuple(fp)
    return w, out, fp


def explore(make, roots, depth, env, label, describe=None):
    """Breadth-first search.  -> runner result dict."""
    hb = env.get("hb")
    res = {"evals": 0, "states": 0, "transitions": 0, "nontrivial": 0, "counters": {}, "samples": [], "violations": []}
    cnt = res["counters"]
    seen = {}  # canon -> probe tail fingerprint of the first history that reached it

    best = {}  # sig -> the shortest violating histories (at most PER_SIG)

    def viol(sig, msg, root, ops, extra=()):
        cnt["violating histories"] = cnt.get("violating histories", 0) + 1
        lst = best.setdefault(sig, [])
        if len(lst) >= PER_SIG and len(ops) >= lst[-1][0]:
            return
        lst.append((len(ops), len(lst), {
            "sig": sig, "msg": "%s | %s history %s" % (msg, label, describe(root, ops) if describe else (root, ops)),
            "features": [label, "len:%d" % len(ops)] + list(extra),
            "case": {"label": label, "root": _jsonable(root), "ops": _jsonable(ops)}}))
        lst.sort(key=lambda x: x[:2])
        del lst[PER_SIG:]

    def execute(root, prefix, op, c0=None):
        """fresh world, replay prefix, apply op (judged), probe tail (judged).
        -> (canon, menu, extend this state?, history and tail free of violations?, nontrivial, tail fingerprint)"""
        w = make(root)
        for p in prefix:
            w.apply(p)  # judged when this prefix was the frontier of the previous level
        bad = []
        ops = prefix
        if op is not None:
            if c0 is not None and w.canon() != c0:
                bad.append(("harness-nondeterminism", "replaying a history on fresh objects reached a different state"))
            ops = prefix + (op,)
            bad.extend(w.apply(op))
        c = w.canon()
        menu = w.menu()
        nt = w.nontrivial()
        ok = not bad
        for sig, msg in bad[:3]:
            viol(sig, msg, root, ops)
        fp = []
        # after a violating operation model and implementation are out of step: no probe tail
        tail = tuple(w.tail()) if ok else ()
        for j, t in enumerate(tail):
            tb = w.apply(t)
            # a violation met in the probe tail is reported as the plain history prefix + tail operations
            for sig, msg in tb[:2]:
                if ok:
                    viol(sig, msg, root, ops + tail[:j + 1], ("probe-tail",))
            if tb:
                ok = False
                break
            fp.append(w.last)
        fp = tuple(fp)
        res["evals"] += 1
        res["transitions"] += w.nops
        for k, v in w.stats.items():
            cnt[k] = cnt.get(k, 0) + v
        return c, menu, not bad, ok, nt, fp

    _execute = execute

    def execute(root, prefix, op, c0=None):
        # an exception escaping from the harness itself (possible only when the library misbehaves in a way the
        # world did not foresee) is reported as a violation of the executed history, not as a harness failure
        try:
            return _execute(root, prefix, op, c0)
        except Exception:
            import traceback
            ops = prefix if op is None else prefix + (op,)
            viol("harness-exception", "executing the history failed inside the harness: %s" % traceback.format_exc()[-600:], root, ops)
            res["evals"] += 1
            return ("harness-exception", root, ops), [], False, False, False, ()

    frontier = []
    t_last = time.time()
    for root in roots:
        c, menu, expand, ok, nt, fp = execute(root, (), None)
        if c in seen:
            continue
        seen[c] = fp if ok else None
        res["nontrivial"] += 1 if nt else 0
        if expand:
            frontier.append((root, (), menu, c))
    cnt["states at depth 0"] = len(frontier)
    for d in range(1, depth + 1):
        nxt = []
        for root, hist, menu, c0 in frontier:
            for k, op in enumerate(menu):
                # replay determinism is verified once per state (on its first operation)
                c, m2, expand, ok, nt, fp = execute(root, hist, op, c0 if k == 0 else None)
                if res["evals"] % 64 == 0:
                    now = time.time()
                    if hb is not None and now - t_last > 1.0:
                        hb[0] = now
                        t_last = now
                old = seen.get(c)
                if c not in seen:
                    seen[c] = fp if ok else None
                    res["nontrivial"] += 1 if nt else 0
                    if expand:
                        nxt.append((root, hist + (op,), m2, c))
                        if len(res["samples"]) < 2 and d == depth:
                            res["samples"].append({"label": label, "root": _jsonable(root), "ops": _jsonable(hist + (op,))})
                elif ok and old is not None and old != fp:
                    viol("canon-too-coarse",
                         "two histories with the same canonical state answer the probe tail differently: %r vs %r" % (old, fp),
                         root, hist + (op,))
        cnt["states at depth %d" % d] = len(nxt)
        frontier = nxt
        if not frontier:
            # fixpoint: no history of any length reaches a state that was not seen (within the checks' item caps)
            cnt["searches closed before the depth bound"] = 1
            break
    res["states"] = len(seen)
    for sig in sorted(best):
        res["violations"].extend(v for _, _, v in best[sig])
    cnt["edges"] = res["evals"]
    return res


def replay(make, case, describe=None):
    root = _as_op(case["root"])
    ops = tuple(_as_op(o) for o in case["ops"])
    w, bad, fp = run_history(make, root, ops)
    return [{"sig": sig, "msg": "%s | history %s (operation #%d)" % (msg, describe(root, ops) if describe else (root, ops), i),
             "features": [case.get("label", "")], "case": case} for sig, msg, i in bad]
