"""Deep-chain family for C03: chains / combs of awaiting tasks far deeper than the interpreter's recursion
limit, run on the real scheduler with per-task step counters (worker side)."""
import sys
import time

import asynq
from asynq import asynq as _asynq, BatchBase, BatchItemBase
import asynq.scheduler as _sched


class _B(BatchBase):
    log = None
    cur = None

    def _try_switch_active_batch(self):
        if _B.cur is self:
            _B.cur = _B()

    def _flush(self):
        _B.log.append(len(self.items))
        for it in self.items:
            it.set_value(it.v)


class _I(BatchItemBase):
    def __init__(self, v):
        if _B.cur is None:
            _B.cur = _B()
        BatchItemBase.__init__(self, _B.cur)
        self.v = v


steps = None


@_asynq()
def chain(n, every):
    """level n awaits level n-1; `every`: each level first waits for its own batch item"""
    steps[n] += 1
    if every:
        a = yield _I(n)
        steps[n] += 1
        assert a == n
    if n == 0:
        if not every:
            a = yield _I(0)
            steps[0] += 1
        return 0
    f = chain.asynq(n - 1, every)
    v = yield f
    steps[n] += 1
    assert f.is_computed()
    return v + 1


@_asynq()
def comb(n):
    """level n awaits [leaf item, level n-1] together"""
    steps[n] += 1
    if n == 0:
        return 0
    it = _I(n)
    f = comb.asynq(n - 1)
    a, v = yield it, f
    steps[n] += 1
    assert it.is_computed() and f.is_computed() and a == n
    return v + 1


@_asynq()
def leaf(i):
    steps[i] += 1
    a = yield _I(i)
    steps[i] += 1
    return a


@_asynq()
def fan(n, as_tuple):
    """ONE yield of n tasks (each waiting for one batch item): width instead of depth"""
    steps[n] += 1
    fs = [leaf.asynq(i) for i in range(n)]
    vs = yield (tuple(fs) if as_tuple else fs)
    steps[n] += 1
    for f in fs:
        assert f.is_computed()
    return len(vs)


def run_deep(shape, d):
    """returns list of (category, message)"""
    global steps
    out = []
    _sched.reset()
    _B.log = []
    _B.cur = None
    steps = [0] * (d + 1)
    sys.setrecursionlimit(1000)
    try:
        if shape == "chain":
            v = chain(d, False)
            exp_steps = [2] * (d + 1)
            exp_flush = [1]
        elif shape == "chain-every":
            v = chain(d, True)
            exp_steps = [3] * (d + 1)
            exp_steps[0] = 2
            exp_flush = None  # d+1 flushes of one item each
        elif shape == "comb":
            v = comb(d)
            exp_steps = [2] * (d + 1)
            exp_steps[0] = 1
            exp_flush = [d] if d else []
        elif shape in ("fan-list", "fan-tuple"):
            v = fan(d, shape == "fan-tuple")
            exp_steps = [2] * (d + 1)
            exp_flush = [d] if d else []
        else:
            raise ValueError(shape)
    except RecursionError as e:
        return [("deep-recursion", "%s of depth %d hit the interpreter recursion limit: %r" % (shape, d, e))]
    except BaseException as e:
        return [("deep-failed", "%s of depth %d failed: %r" % (shape, d, e))]
    if v != d:
        out.append(("deep-value", "%s of depth %d returned %r" % (shape, d, v)))
    if steps != exp_steps:
        bad = [i for i in range(d + 1) if steps[i] != exp_steps[i]][:5]
        out.append(("step-count", "%s of depth %d: levels %s ran %s steps, expected %s"
                    % (shape, d, bad, [steps[i] for i in bad], [exp_steps[i] for i in bad])))
    if exp_flush is not None and _B.log != exp_flush:
        out.append(("deep-flushes", "%s of depth %d flushed %r, expected %r" % (shape, d, _B.log[:10], exp_flush)))
    if exp_flush is None and _B.log != [1] * (d + 1):
        out.append(("deep-flushes", "%s of depth %d made %d flushes, expected %d of one item" % (shape, d, len(_B.log), d + 1)))
    sch = _sched.get_scheduler()
    if len(sch._tasks) or sch.active_task is not None:
        out.append(("scheduler-residue", "scheduler not clean after deep %s" % shape))
    steps = None
    return out
