"""PROGX core: a small task-program language, its compiler to id-annotated code, the sequential
reference evaluator R1, and the harness ("world") that runs a program on the REAL asynq scheduler
under an explorer-chosen flush schedule while online monitors watch every step.

Program term grammar (plain tuples, JSON-able):

  program := ("P", task, shared:(task,...), flushmodes:((kind,mode),...))
  task    := ("t", stmts)
  stmt    := ("y", struct) | ("try", stmts, stmts) | ("with", ckind, stmts) | ("sync", task, conv)
           | ("raise",) | ("probe",) | ("res",) | ("mk", leaf) | ("iv", kind)
  struct  := leaf | ("T", (struct,...)) | ("L", (struct,...)) | ("D", ((key, struct),...))
  leaf    := ("c", task) | ("i", kind, mode) | ("k",) | ("n",) | ("sh", idx) | ("ef",)
           | ("lz", "ok"|"raise") | ("nf",) | ("re", j)

  ckind   : "A" plain AsyncContext | "N" NonAsyncContext | "S0"/"S1" AsyncScopedValue override |
            "P0" async_override | "Xp" AsyncContext whose pause raises (2nd pause onwards: never, only
            scheduler-driven pauses raise) | "Xr" AsyncContext whose scheduler-driven resume raises
  ("iv", kind): create an item of `kind` and call item.value() synchronously (out-of-band flush)
"""
import sys

OPTION_NAMES = [
    "DUMP_PRE_ERROR_STATE", "DUMP_EXCEPTIONS", "DUMP_SCHEDULE_TASK", "DUMP_CONTINUE_TASK",
    "DUMP_SCHEDULE_BATCH", "DUMP_FLUSH_BATCH", "DUMP_DEPENDENCIES", "DUMP_COMPUTED",
    "DUMP_NEW_TASKS", "DUMP_YIELD_RESULTS", "DUMP_QUEUED_RESULTS", "DUMP_CONTEXTS", "DUMP_SYNC",
    "DUMP_STACK", "DUMP_SCHEDULER_STATE", "DUMP_SYNC_CALLS", "COLLECT_PERF_STATS",
    "ENABLE_COMPLEX_ASSERTIONS", "KEEP_DEPENDENCIES",
]

# --------------------------------------------------------------------------------------------------
# compile: annotate every task / leaf / stmt / ctx with an integer id


class TaskCode(object):
    __slots__ = ("tid", "stmts", "term", "shared_idx")

    def __init__(self, tid, term):
        self.tid = tid
        self.term = term
        self.stmts = None
        self.shared_idx = None

    def __repr__(self):
        return "TaskCode(%d)" % self.tid


class Prog(object):
    """Compiled program."""

    def __init__(self, term):
        assert term[0] == "P"
        self.term = term
        self.ntasks = 0
        self.nleaves = 0
        self.nstmts = 0
        self.tasks = []  # TaskCode by tid
        self.leaf_info = {}  # lid -> leaf term
        self.flushmodes = dict(term[3])
        self.kinds = set()
        self.features = set()
        self.root = self._task(term[1])
        self.shared = []
        for i, t in enumerate(term[2]):
            tc = self._task(t)
            tc.shared_idx = i
            self.shared.append(tc)
        for k, m in term[3]:
            if m != "ok":
                self.features.add("flush:" + m)

    def _task(self, term):
        tc = TaskCode(self.ntasks, term)
        self.ntasks += 1
        self.tasks.append(tc)
        tc.stmts = self._block(term[1])
        return tc

    def _block(self, stmts):
        out = []
        for st in stmts:
            sid = self.nstmts
            self.nstmts += 1
            op = st[0]
            if op == "y":
                out.append(("y", sid, self._struct(st[1])))
            elif op == "try":
                self.features.add("try")
                out.append(("try", sid, self._block(st[1]), self._block(st[2])))
            elif op == "with":
                self.features.add("with:" + st[1])
                out.append(("with", sid, st[1], self._block(st[2])))
            elif op == "ovl":
                # two AsyncContexts whose lifetimes overlap without nesting: entered c1, c2 - left c1, c2
                self.features.add("with:ovl")
                out.append(("ovl", sid, self._block(st[1]), self._block(st[2])))
            elif op == "sync":
                self.features.add("sync")
                out.append(("sync", sid, self._task(st[1]), st[2]))
            elif op == "mk":
                self.features.add("mk")
                out.append(("mk", sid, self._leaf(st[1])))
            elif op == "iv":
                self.features.add("iv")
                self.kinds.add(st[1])
                lid = self.nleaves
                self.nleaves += 1
                self.leaf_info[lid] = ("i", st[1], "ok")
                out.append(("iv", sid, st[1], lid))
            elif op == "cancel":
                # cancel the currently active (pending) batch of a kind from inside a task
                self.features.add("cancel")
                self.kinds.add(st[1])
                out.append(("cancel", sid, st[1]))
            elif op == "ddirty":
                self.features.add("ddirty")
                out.append(("ddirty", sid, st[1], st[2]))
            elif op in ("raise", "probe", "res"):
                self.features.add(op)
                out.append((op, sid))
            else:
                raise ValueError(st)
        return out

    def _struct(self, s):
        op = s[0]
        if op in ("T", "L"):
            if op == "T":
                self.features.add("shape:T")
            if len(s[1]) == 0:
                self.features.add("shape:empty")
            return (op, [self._struct(x) for x in s[1]])
        if op == "D":
            self.features.add("shape:D")
            return ("D", [(k, self._struct(x)) for k, x in s[1]])
        return self._leaf(s)

    def _leaf(self, lf):
        lid = self.nleaves
        self.nleaves += 1
        self.leaf_info[lid] = lf
        op = lf[0]
        if op == "c":
            return ("c", lid, self._task(lf[1]))
        if op == "cw":
            self.features.add("leaf:cw")
            return ("c", lid, self._task(lf[1]), "cw")
        if op == "cu":
            self.features.add("leaf:cu")
            return ("c", lid, self._task(lf[1]), "cu")
        if op == "i":
            self.kinds.add(lf[1])
            if lf[2] != "ok":
                self.features.add("item:" + lf[2])
            return ("i", lid, lf[1], lf[2])
        if op in ("k", "n", "ef", "nf"):
            if op != "k":
                self.features.add("leaf:" + op)
            return (op, lid)
        if op == "sh":
            self.features.add("shared")
            return ("sh", lid, lf[1])
        if op == "lz":
            self.features.add("lazy:" + lf[1])
            return ("lz", lid, lf[1])
        if op == "re":
            self.features.add("re")
            return ("re", lid, lf[1])
        if op == "dd":
            self.features.add("dd")
            self.kinds.update(("a", "b"))
            return ("dd", lid, lf[1], lf[2], lf[3])
        if op == "dbi":
            self.features.add("dbi")
            return ("dbi", lid, lf[1])
        if op == "bt":
            self.features.add("bt")
            self.kinds.add(lf[1])
            return ("bt", lid, lf[1])
        raise ValueError(lf)


_prog_cache = {}


def compile_prog(term):
    return Prog(term)


# --------------------------------------------------------------------------------------------------
# error tokens


class HErr(Exception):
    def __init__(self, tag):
        Exception.__init__(self, tag)
        self.tag = tag


class HFalsyErr(HErr):
    """an exception whose truth value is False (e.g. carries an empty list of reasons): errors must be
    recognised by `is not None`, never by truthiness"""

    def __len__(self):
        return 0


class HBaseErr(BaseException):
    def __init__(self, tag):
        BaseException.__init__(self, tag)
        self.tag = tag


def tok(e):
    t = getattr(e, "tag", None)
    if t is not None:
        return t
    return ("exc", type(e).__name__)


def is_base_tok(t):
    return isinstance(t, tuple) and len(t) > 0 and t[0] == "flushB"


# --------------------------------------------------------------------------------------------------
# R1: plain sequential, depth-first evaluation


class _R1Err(Exception):
    def __init__(self, t):
        self.t = t


class _R1Result(Exception):
    def __init__(self, v):
        self.v = v


ANY = ("<any>",)


class R1(object):
    """Sequential reference. Produces outcome, started set, per-task step counts, probe reads."""

    def __init__(self, prog):
        self.prog = prog
        self.shared_memo = {}
        self.started = set()
        self.steps = {}
        self.probes = {}
        self.auto = {}  # (tid, step number) -> scoped values readable when that step begins
        self.sv = {"S0": 0, "S1": 0, "P0": 0}
        self.in_shared = 0
        self.unsupported = None
        self.now = 0  # critical-path clock: number of sequential flush rounds needed so far
        self.crit = None

    def run(self):
        r = self.task(self.prog.root)
        self.crit = r[2]
        if r[0] == "v":
            return ("ok", r[1])
        return ("err", r[1])

    def _auto(self, tid):
        self.auto[(tid, self.steps[tid])] = ANY if self.in_shared else (self.sv["S0"], self.sv["S1"], self.sv["P0"])

    def task(self, tc):
        self.started.add(tc.tid)
        self.steps[tc.tid] = 1
        self._auto(tc.tid)
        rec, made = [], []
        saved = self.now
        try:
            self.block(tc, tc.stmts, rec, made)
        except _R1Err as e:
            return ("e", e.t, self.now)
        except _R1Result as r:
            return ("v", r.v, self.now)
        finally:
            end = self.now
            self.now = saved
        return ("v", ("t", tc.tid, tuple(rec)), end)

    def block(self, tc, stmts, rec, made):
        for st in stmts:
            op = st[0]
            if op == "y":
                leaves = []
                shape = self.struct(tc, st[2], made, leaves)
                self.steps[tc.tid] += 1
                self._auto(tc.tid)
                for r in leaves:
                    if r[2] > self.now:
                        self.now = r[2]
                for r in leaves:
                    if r[0] == "e":
                        raise _R1Err(r[1])
                rec.append(shape())
            elif op == "try":
                try:
                    self.block(tc, st[2], rec, made)
                except _R1Err as e:
                    if is_base_tok(e.t):
                        raise
                    rec.append(("caught", e.t))
                    self.block(tc, st[3], rec, made)
            elif op == "with":
                ck = st[2]
                if ck == "R0":
                    old = self.sv["S0"]
                    self.sv["S0"] = ("ovR",)
                    try:
                        self.block(tc, st[3], rec, made)
                    finally:
                        self.sv["S0"] = old
                elif ck in ("S0", "S1", "P0"):
                    old = self.sv[ck]
                    self.sv[ck] = ("ov", st[1])
                    try:
                        self.block(tc, st[3], rec, made)
                    finally:
                        self.sv[ck] = old
                else:
                    if ck in ("N", "Xp", "Xr", "Xq"):
                        self.unsupported = ck
                    self.block(tc, st[3], rec, made)
            elif op == "ovl":
                self.block(tc, st[2], rec, made)
                self.block(tc, st[3], rec, made)
            elif op == "sync":
                r = self.task(st[2])
                if r[2] > self.now:
                    self.now = r[2]
                if r[0] == "e":
                    raise _R1Err(r[1])
                rec.append(r[1])
            elif op == "raise":
                raise _R1Err(("raise", tc.tid, st[1]))
            elif op == "probe":
                if self.in_shared:
                    self.probes[st[1]] = ANY
                else:
                    self.probes[st[1]] = (self.sv["S0"], self.sv["S1"], self.sv["P0"])
            elif op == "res":
                raise _R1Result(("t", tc.tid, tuple(rec)))
            elif op == "mk":
                made.append(self.leaf_lazy(tc, st[2]))
            elif op == "cancel":
                self.unsupported = "cancel"
            elif op == "ddirty":
                self.unsupported = "dd"
            elif op == "iv":
                r = self.item(st[2], st[3], "ok")
                self.now = r[2]
                if r[0] == "e":
                    raise _R1Err(r[1])
                rec.append(r[1])
            else:
                raise ValueError(op)

    # a "made" entry is a thunk evaluated (once) when first awaited
    def leaf_lazy(self, tc, lf):
        cell = []

        def force():
            if not cell:
                cell.append(self.leaf(tc, lf, None))
            return cell[0]

        return force

    def item(self, kind, lid, mode):
        fm = self.prog.flushmodes.get(kind, "ok")
        t = self.now + 1
        if fm == "nested":
            # the flush body first calls, synchronously, a function that waits for an item of another kind: if that
            # kind's flush fails, the failure escapes from this flush body and becomes the error of all its items
            other = "b" if kind != "b" else "a"
            om = self.prog.flushmodes.get(other, "ok")
            if om == "raise":
                return ("e", ("flush", other), t)
            if om == "raiseB":
                return ("e", ("flushB", other), t)
            if om in ("fcancel", "fcancelraise"):
                return ("e", ("flushcancel", other), t)
        if fm == "raise":
            return ("e", ("flush", kind), t)
        if fm == "raiseB":
            return ("e", ("flushB", kind), t)
        if fm in ("fcancel", "fcancelraise"):
            # the flush body fails the whole batch with the public cancel(error) before serving anything, then returns
            # (or raises something else, which must be ignored: the batch is already computed)
            return ("e", ("flushcancel", kind), t)
        if fm == "setfcancel" and mode == "unset":
            return ("e", ("flushcancel", kind), t)
        if mode == "ok":
            return ("v", ("i", lid), t)
        if mode == "err":
            return ("e", ("item", lid), t)
        if mode == "errf":
            return ("e", ("itemf", lid), t)
        if mode == "unset":
            if fm == "setraise":
                return ("e", ("flushlate", kind), t)
            return ("e", ("exc", "AssertionError"), t)
        raise ValueError(mode)

    def leaf(self, tc, lf, made):
        op = lf[0]
        if op == "c":
            return self.task(lf[2])
        if op == "i":
            return self.item(lf[2], lf[1], lf[3])
        if op == "k":
            return ("v", ("k", lf[1]), 0)
        if op == "n":
            return ("v", None, 0)
        if op == "ef":
            return ("e", ("ef", lf[1]), 0)
        if op == "nf":
            return ("e", ("exc", "TypeError"), 0)
        if op == "lz":
            if lf[2] == "ok":
                return ("v", ("z", lf[1]), 0)
            return ("e", ("lz", lf[1]), 0)
        if op == "sh":
            idx = lf[2]
            if idx not in self.shared_memo:
                self.in_shared += 1
                try:
                    self.shared_memo[idx] = self.task(self.prog.shared[idx])
                finally:
                    self.in_shared -= 1
            return self.shared_memo[idx]
        if op == "re":
            if not made:
                return ("v", None, 0)
            return made[lf[2] % len(made)]()
        if op == "dd":
            self.unsupported = "dd"
            return ("v", ("dd?",), 0)
        if op == "bt":
            self.unsupported = "bt"
            return ("v", None, self.now + 1)
        if op == "dbi":
            self.unsupported = "dbi"
            return ("v", ("dbi", lf[1]), self.now + 1)
        raise ValueError(op)

    def struct(self, tc, s, made, leaves):
        """Evaluates every leaf (appending results to `leaves` in structure order); returns a thunk
        building the value-substituted structure."""
        op = s[0]
        if op == "T":
            subs = [self.struct(tc, x, made, leaves) for x in s[1]]
            return lambda: tuple(f() for f in subs)
        if op == "L":
            subs = [self.struct(tc, x, made, leaves) for x in s[1]]
            return lambda: [f() for f in subs]
        if op == "D":
            subs = [(k, self.struct(tc, x, made, leaves)) for k, x in s[1]]
            return lambda: {k: f() for k, f in subs}
        if op == "re":
            r = made[s[2] % len(made)]() if made else ("v", None, 0)
        else:
            cell = []
            r = self.leaf(tc, s, made)
            cell.append(r)
            made.append(lambda: cell[0])
        leaves.append(r)
        return lambda: r[1]


def r1_eval(prog):
    r = R1(prog)
    old = sys.getrecursionlimit()
    out = r.run()
    return r, out
