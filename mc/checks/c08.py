"""C08 - active task is always the running one; scheduler is clean after any outcome."""
from .. import gen, progx
from .. import prog as P
from .. import explore as X

ID = "C08"
BUILDS = ("pure", "compiled")
RULE = ("histories on one thread without scheduler reset: a first computation = every base program up to size n with "
        "every placement of <=k deviations from the fault menu (raise, failing/unset items, failing flush incl. "
        "BaseException, lazily computed futures, ErrorFuture, non-futures, NonAsyncContext, contexts whose "
        "pause/resume raise, synchronous re-entry nested to depth 3, try) under every flush schedule and, in a second "
        "pass, with the runaway-recursion guard tripped (MAX_TASK_STACK_SIZE 2..6); followed by five canary "
        "computations. Oracle: get_active_task() at every step/probe/after nested calls, None afterwards; empty "
        "scheduler stack; no body of an earlier computation runs later; every canary observation equals the same "
        "history with scheduler.reset() inserted before it (differential). non-trivial = first computations that "
        "fail or re-enter the scheduler")
EXPLANATION = "explicit enumeration of computation histories on the real thread-local scheduler; differential oracle against a fresh scheduler"
ASSUMPTIONS = [
    "harness batch state (active batches) is carried across the history in both variants, so only scheduler residue can differ",
    "generators of unfinished tasks are kept alive until the history ends (GC timing is not part of the property)",
]
MENU = ["ins:raise", "item:err", "item:unset", "flush:raise", "flush:raiseB", "flush:fcancel", "flush:fcancelraise", "leaf:lzraise", "leaf:lzok", "leaf:ef",
        "leaf:nf", "wrap:N", "wrap:Xp", "wrap:Xr", "wrap:Xq", "wrap:A", "ins:sync", "wrap:try", "ins:probe", "ins:iv"]
CATS = ["active-task", "active-task-after", "scheduler-residue", "scheduler-str", "stale-task-ran",
        "canary-differs", "canary-stale-batch-flushed", "hang", "worker-died"]
GUARD_CATS = [c for c in CATS if c != "active-task"]
LADDER = {"quick": [(4, 0, ["call"]), (3, 1, ["call", "av"]), (2, 2, ["call"])],
          "thorough": [(5, 0, ["call"]), (4, 1, ["call"]), (3, 1, ["av"]), (3, 2, ["call"])]}
GUARD_SIZES = {"quick": (2, 3, 4), "thorough": (2, 3, 4, 5, 6)}

IA, IB = gen.IA, gen.IB


def _t(*st):
    return ("t", tuple(st))


CANARIES = [
    # first: awaits only the lowest-ranked kind - any batch of kind a/b left scheduled by the earlier computation would be
    # flushed before it (it must come first: a later canary that uses kinds a/b absorbs such a batch in both variants)
    ("P", _t(("y", ("i", "c", "ok"))), (), ()),
    ("P", _t(("y", ("L", (("c", _t(("y", IA), ("y", IB))), ("c", _t(("y", IB), ("y", IA)))))), ("probe",)), (), ()),
    ("P", _t(("with", "S0", (("y", ("L", (("c", _t(("with", "S0", (("y", IA), ("probe",))))),
                                           ("c", _t(("probe",), ("y", IB), ("probe",)))))),))), (), ()),
    ("P", _t(("y", ("L", (("c", _t(("sync", _t(("y", IA)), "call"), ("y", IB))), ("c", _t(("y", IB))))))), (), ()),
    # an "idle pass": the second child flushes, out of band, the batch the first child is parked on, so one pass of
    # the wait loop ends with the root blocked and nothing to flush (twice in a row in the second half)
    ("P", _t(("y", ("L", (("c", _t(("y", IA))), ("c", _t(("iv", "a")))))),
             ("y", ("L", (("c", _t(("y", IB))), ("c", _t(("iv", "b"))))))), (), ()),
]
# deep synchronous re-entry (depth 3) with a failure at the bottom, as an extra first computation
NESTED = [
    ("P", _t(("sync", _t(("sync", _t(("sync", _t(("y", IA), ("raise",)), "call"), ("y", IB)), "av"), ("probe",)), "call"), ("probe",)), (), ()),
    ("P", _t(("y", ("L", (("c", _t(("sync", _t(("y", ("i", "a", "err"))), "call"))), IB))), ("probe",)), (), ()),
]


def jobs(tier, seed):
    for j in progx.ladder_jobs(LADDER[tier], MENU, CATS, {"r1": False}):
        yield j
    yield {"bases": NESTED, "menu": [], "k": 0, "convs": ["call", "av"], "cats": CATS, "r1": False}
    n = 3 if tier == "quick" else 4
    # deviation-free programs one and two sizes larger: the guard must also trip AFTER batches were scheduled
    for g in GUARD_SIZES[tier]:
        for size in (n + 1, n + 2):
            for bases in progx.chunked(gen.base_programs(size), 300):
                yield {"bases": bases, "menu": [], "k": 0, "convs": ["call"], "cats": GUARD_CATS,
                       "r1": False, "opts": {"max_stack": g}}
    for g in GUARD_SIZES[tier]:
        for size in range(1, n + 1):
            for bases in progx.chunked(gen.base_programs(size), 100):
                # while the guard unwinds a computation the scheduler is reset wholesale; only the state
                # after the outermost call returned (and the canaries) is judged
                yield {"bases": bases, "menu": ["ins:sync", "wrap:try"], "k": 1, "convs": ["call"], "cats": GUARD_CATS,
                       "r1": False, "opts": {"max_stack": g}}


worker_init = progx.worker_init
_can = None


def _canaries():
    global _can
    if _can is None:
        _can = [P.compile_prog(c) for c in CANARIES]
    return _can


def _history_judge(prog, r, exp, r1, spec, conv, out):
    """r is one explored execution of the first computation; replay it as the head of two histories"""
    cans = _canaries()
    cfg = dict(spec.get("opts", {}))
    cfg["conv"] = conv
    first = (prog, r.schedule, cfg)
    tail = [(c, (), {}) for c in cans]
    same = X.run_history([first] + tail, reset_between=False)
    fresh = X.run_history([first] + tail, reset_between=True)
    out["evals"] += len(same) + len(fresh)
    out["counters"]["histories"] = out["counters"].get("histories", 0) + 2
    if X.observation(same[0]) != X.observation(r) or X.observation(fresh[0]) != X.observation(r):
        out["violations"].append({"sig": "harness", "msg": "first computation not deterministic across replays",
                                  "features": progx.feats(prog), "case": _case(prog, r, conv, spec)})
    if r.outcome[0] == "err" or "sync" in prog.features:
        out["counters"]["faulty_first"] = out["counters"].get("faulty_first", 0) + 1
    for i in range(1, len(same)):
        for cat, msg in same[i].viol:
            if cat in spec["cats"]:
                out["violations"].append({"sig": cat, "msg": "canary %d after the first computation: %s" % (i, msg),
                                          "features": progx.feats(prog) + ["conv:" + conv], "case": _case(prog, r, conv, spec)})
                break
        a, b = X.observation(same[i]), X.observation(fresh[i])
        if a != b:
            d = [n for n, (x, y) in zip(("outcome", "flushes", "decisions", "contexts", "probes", "steps", "monitors"), zip(a, b)) if x != y]
            sig = "canary-differs"
            if d == ["flushes", "decisions"]:
                # is the only difference that batches the EARLIER computation left scheduled (all their items belong to
                # it) are flushed during the canary?
                own = tuple(f for f in a[1] if not all(0 <= l < 1000 * i for l in f[1]))
                if own == b[1]:
                    sig = "canary-stale-batch-flushed"
            out["violations"].append({
                "sig": sig,
                "msg": "canary %d behaves differently after this computation than on a fresh scheduler (%s): %r vs %r"
                       % (i, ",".join(d), [x for x, y in zip(a, b) if x != y][0], [y for x, y in zip(a, b) if x != y][0]),
                "features": progx.feats(prog) + ["conv:" + conv], "case": _case(prog, r, conv, spec)})
            break


def _case(prog, r, conv, spec):
    return {"prog": prog.term, "prefix": list(r.schedule), "conv": conv, "opts": spec.get("opts", {}),
            "spec": {"cats": spec["cats"], "r1": False}}


def run(job, env):
    res = progx.run_spec(job, env, extra_judge=_history_judge)
    res["nontrivial"] = res["counters"].get("faulty_first", 0)
    return res


def replay(case, env):
    return progx.replay_case(case, env, extra_judge=_history_judge)


def finish(acc, tier):
    return {"bounds": {"ladder": LADDER[tier], "menu": MENU, "guard sizes": GUARD_SIZES[tier], "canaries": len(CANARIES),
                       "history length": 1 + len(CANARIES), "categories judged": CATS}}
