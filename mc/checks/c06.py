"""C06 - an AsyncContext is active exactly while its task, or work it awaits, runs"""
from .. import gen, progx

ID = "C06"
BUILDS = ("pure", "compiled")
RULE = "every base program up to size n with every placement of <=k deviations (AsyncContext / NonAsyncContext around any statement range at any nesting, contexts whose pause/resume raise, synchronous re-entry, shared tasks, raise / failing item inside the block, result() inside the block, try), every flush schedule, both builds; R3 context model at every task step and every flush; non-trivial = program with a >=2-way flush decision"
EXPLANATION = "stateless DFS over every flush schedule of every program on the real scheduler (both builds); each execution checked by online monitors and lock-step reference models (R1 sequential evaluator, R2 maximal-batching machine, R3 context model)"
ASSUMPTIONS = [
    "values are opaque tokens; task bodies have no side effects besides the harness record",
    "exhaustive only within the alphabet and bounds listed in coverage.bounds",
]
MENU = ["ins:caught", "wrap:ovl", "wrap:A", "wrap:N", "ins:sync", "leaf:sh", "ins:raise", "item:err", "ins:res", "wrap:try", "wrap:Xp", "wrap:Xr"]
CATS = ["ctx-alternation", "ctx-after-exit", "ctx-must-active", "ctx-must-paused", "ctx-active-at-flush", "r2-outcome", "hang", "worker-died"]
LADDER = {"quick": [(4, 1, ["call"]), (3, 2, ["call"])], "thorough": [(5, 1, ["call"]), (4, 2, ["call"]), (2, 3, ["call"])]}
SPEC = {"r1": False, "r2": True, "need": []}


def jobs(tier, seed):
    return progx.ladder_jobs(LADDER[tier], MENU, CATS, SPEC)


worker_init = progx.worker_init


def run(job, env):
    return progx.run_spec(job, env)


def replay(case, env):
    return progx.replay_case(case, env)


def finish(acc, tier):
    return {"bounds": {"ladder (size<=n, deviations<=k, conventions)": LADDER[tier], "menu": MENU, "categories judged": CATS}}
