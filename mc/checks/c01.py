"""C01 - async execution returns exactly what sequential evaluation would."""
from .. import gen, progx

ID = "C01"
BUILDS = ("pure", "compiled")
RULE = ("every program of the base family up to size n plus every placement of <=k deviations from the C01 "
        "menu (all yield-structure shapes, None, re-yielded futures, shared tasks, try/except+raise, AsyncContext, "
        "scoped override, synchronous re-entry, result(), third batch kind; flush bodies that raise or re-enter the scheduler), under every flush schedule, 5 calling "
        "conventions and both builds; non-trivial = program whose exploration met a flush decision with >=2 pending kinds")
EXPLANATION = "stateless DFS over flush schedules of the real scheduler; every execution compared with the sequential evaluator R1"
ASSUMPTIONS = [
    "values are opaque tokens; bodies have no side effects other than the harness record",
    "programs are finite and acyclic; alphabet and bounds as listed in coverage.bounds",
]
MENU = ["leaf:n", "leaf:re", "leaf:sh", "item:c", "shape:T", "shape:D", "shape:nest", "shape:wrap1",
        "ins:raise", "ins:res", "ins:sync", "ins:yempty", "ins:ynone", "ins:probe", "ins:mkitem", "ins:mkchild",
        "wrap:try", "wrap:A", "wrap:S0"]
CATS = ["outcome-mismatch", "value-shape", "schedule-disagree", "spurious-error", "probe-mismatch", "hang", "worker-died"]
CONVS_ALL = ["call", "av", "yielded", "async_call", "async_call_sync"]

# re-entry x contexts x try: the combinations the statement names explicitly, one size further than the full menu
MENU_RE = ["ins:sync", "wrap:S0", "wrap:A", "wrap:try", "ins:raise", "ins:res"]
# flush bodies that fail (Exception / BaseException) or re-enter the scheduler synchronously, and the handlers around them
MENU_FL = ["flush:nested", "flush:hooknested", "flush:raise", "flush:raiseB", "wrap:try", "ins:sync"]
LADDER = {
    "quick": [(5, 0, ["call", "yielded"]), (4, 0, CONVS_ALL), (3, 1, ["call", "av"]), (2, 2, ["call"]),
              (3, 2, ["call"], MENU_RE), (4, 1, ["call", "yielded"], MENU_FL), (3, 2, ["call"], MENU_FL)],
    "thorough": [(6, 0, ["call", "yielded"]), (5, 0, CONVS_ALL), (4, 1, ["call", "av"]), (3, 2, ["call"]), (2, 3, ["call"]),
                 (4, 2, ["call"], MENU_RE), (3, 3, ["call"], MENU_RE),
                 (5, 1, ["call", "yielded"], MENU_FL), (4, 2, ["call"], MENU_FL)],
}


def jobs(tier, seed):
    # hand-written multi-stage programs with several "idle passes" of the wait loop (see c03.STAGED)
    from . import c03
    yield {"bases": c03.STAGED, "menu": [], "k": 0, "convs": CONVS_ALL, "cats": CATS, "r1": True}
    done = set()
    for ent in LADDER[tier]:
        n, k, convs = ent[:3]
        menu = ent[3] if len(ent) > 3 else MENU
        for size in range(1, n + 1):
            if menu is MENU and any(size <= n2 and k <= k2 and set(convs) <= set(c2) for (n2, k2, c2) in done):
                continue
            chunk = 400 if k == 0 else (8 if k == 1 else 1)
            for bases in progx.chunked(gen.base_programs(size), chunk):
                yield {"bases": bases, "menu": menu, "k": k, "convs": convs, "cats": CATS, "r1": True}
        if menu is MENU:
            done.add((n, k, tuple(convs)))
    # shape family over succeeding leaves (values keep their shape for every structure of depth 2 / arity <= 3)
    leaves = (gen.K, gen.IA, ("n",)) if tier == "quick" else (gen.K, gen.IA, ("n",), gen.IB)
    m = 48 if tier == "quick" else 128
    for i in range(m):
        yield {"shape_slice": [i, m, tier], "shape_leaves": leaves, "menu": [], "k": 0, "convs": ["call", "yielded"],
               "cats": CATS, "r1": True}


worker_init = progx.worker_init


def run(job, env):
    return progx.run_spec(job, env)


def replay(case, env):
    return progx.replay_case(case, env)


def finish(acc, tier):
    return {"bounds": {"ladder (size<=n, deviations<=k, conventions[, sub-menu])": LADDER[tier], "menu": MENU,
                       "shape family": "every tuple/list/dict of arity 0..3 whose elements are leaves or containers of arity 0..2 over succeeding leaves"}}
