"""C19 - asynq.mock.patch replaces every calling convention and always restores.

PRODX: the full finite product  target kind x replacement kind x entry point x activation style x exit path x history
is executed on the real asynq.mock.patch; every cell builds a fresh module (registered in sys.modules) with fresh
functions/classes, and is compared with a direct reference: the same replacement installed with a plain setattr() in a
second fresh world and called synchronously.
"""
import dataclasses
import sys
import time
import types

ID = "C19"
ENGINE = "PRODX"
BUILDS = ("pure", "compiled")
TECHNIQUE = "exhaustive enumeration of a finite configuration product on the real asynq.mock.patch vs a direct setattr() reference"
EXPLANATION = ("every cell of the target x replacement x entry point x activation x exit x history product is executed on a fresh "
               "module; calls inside the patch are compared with the same replacement installed by plain setattr(), and the "
               "owner's attribute is compared by identity with the original after every way of ending the patch")
RULE = ("cell = (target kind, replacement kind[, second replacement kind], entry point, activation, exit path, history); targets: "
        "module-level @asynq function (patched by the dotted name of a module created in sys.modules), @asynq method, classmethod "
        "(called via class / instance), staticmethod (via class / instance), @asynq method patched on one instance, plain method, "
        "plain non-callable class attribute; replacements: default MagicMock, plain function, classmethod()/staticmethod()-wrapped "
        "function on the matching target, bound method of another object, callable object, callable object with __slots__, "
        "callable objects that have a __dict__ but refuse new attributes (frozen dataclass instance, object whose __setattr__ "
        "raises, Mock(spec_set=['__call__'])), an "
        "@asynq function, new_callable=MagicMock / a callable class (as documented, and with the autospec=None spelling), "
        "non-callable value; entry points patch('dotted.name') and patch.object(owner, 'name'); activation: with-block, decorator "
        "on a test function, decorator on a test class, start()/stop(), start() + patch.stopall(); exit: normal / exception; "
        "every nested / sequential history also with ONE replacement object handed to both patches (same target, and the target "
        "plus a second name bound to the same original), plus a two-name control with two fresh replacements and the two-name "
        "history start, start, stop-first, stop-second; while any patch is active all four conventions are made through every "
        "patched name, also after the inner / first patch ended; "
        "history: single, nested patch of the same target, two sequential patches (first replacement from default / function / "
        "bound method / __slots__ callable / non-callable, second from all kinds; thorough: all pairs), one patcher object used twice (thorough: the "
        "second patch of nested / sequential histories also in every other entry point x activation style). All cells are "
        "executed (no sampling) in both builds. Inside the patch the synchronous call, .asynq(...).value(), yield .asynq(...) from "
        "an @asynq task and an awaited .asyncio(...) are made with distinct arguments. evals = cells executed (both builds); "
        "states = distinct cells (counted once, in the pure build); transitions = patch activations + calls made through the "
        "patched attribute; non-trivial = cells whose replacement is not the default MagicMock or whose target is reached through "
        "an instance or class (bound callable)")
ASSUMPTIONS = [
    "what 'reaches the replacement with the given arguments' means for a replacement installed on a class is defined by Python "
    "itself: the reference installs the same object with setattr() and records what a plain call passes (e.g. a plain function "
    "installed over a method receives the instance, a MagicMock or a bound method does not)",
    "for plain (non-async) targets only the synchronous call, installation and restoration are judged; the statement promises "
    "the asynchronous conventions for async functions and methods only",
    "new_callable is exercised with the factories it is documented for (a mock class with keyword arguments, a class whose "
    "instances are callable); factories returning bare functions or bound methods are not part of the alphabet",
    "nested patches are stopped innermost first (the only order unittest.mock supports)",
    "attributes that patch leaves on a user-supplied replacement object (.asynq/.asyncio) are not judged",
]

MODNAME = "c19_target_module"
DB, DK, RV = "dB", "dK", "mock-rv"

TARGETS = ["modfn", "method", "cm_cls", "cm_inst", "sm_cls", "sm_inst", "inst_method", "plain_method", "plain_attr"]
ASYNC_TARGETS = ("modfn", "method", "cm_cls", "cm_inst", "sm_cls", "sm_inst", "inst_method")
BOUND_TARGETS = ("method", "cm_cls", "cm_inst", "inst_method", "plain_method", "sm_inst")
# callable_frozen / callable_setattr_raises / mock_spec_set: callables that HAVE an instance __dict__ but refuse new attributes
REPLS = ["default", "function", "function_like_target", "boundmethod", "callable_obj", "callable_slots", "callable_frozen",
         "callable_setattr_raises", "mock_spec_set", "asynq_fn",
         "new_callable_mock", "new_callable_class", "new_callable_mock_ws", "new_callable_class_ws", "noncallable"]
# second dimension of nested / sequential histories (the documented new_callable spelling is covered by the single history)
PAIR_REPLS = [r for r in REPLS if r not in ("new_callable_mock", "new_callable_class")]
ENTRIES = ["dotted", "object"]
ACTIVATIONS = ["with", "decorator", "classdecorator", "startstop", "stopall"]
EXITS = ["normal", "exception"]
HISTORIES = ["single", "same_patcher_twice", "nested", "sequential"]  # + overlap_fifo in the shared / alias variants
CONVS = ["sync", "asynq_value", "yield", "asyncio"]
CONV_ARGS = {
    "sync": (("s1", "s2"), {"k": "s3"}),
    "asynq_value": (("v1",), {"b": "v2"}),
    "yield": (("y1", "y2"), {}),
    "asyncio": (("i1",), {"k": "i3"}),
}
SKIPPED = {
    "function_like_target on targets that are not classmethods/staticmethods": "identical to the 'function' replacement there (duplicate cells)",
    "async conventions on plain (non-async) targets": "not promised by the statement; only sync call, installation and restoration are judged",
    "observation of the state between the inner and the outer exit for decorator / class decorator / stopall activations":
        "both patches end in one step there; only the final state is observable",
    "new_callable without autospec=None as a member of nested/sequential pairs": "covered by the single and reuse histories",
}


class Boom(Exception):
    pass


# ----------------------------------------------------------------------------------------------------------------

_LIB = None


class _Lib(object):
    pass


def lib():
    global _LIB
    if _LIB is None:
        import asyncio
        from unittest import mock
        import asynq
        import asynq.batching as batching
        import asynq.scheduler as scheduler
        import asynq.tools as tools
        L = _Lib()
        L.asynq = asynq.asynq
        L.patch = asynq.mock.patch
        L.mock = mock
        L.scheduler = scheduler
        L.tools = tools
        L.batching = batching
        L.profiler = asynq.profiler
        L.loop = asyncio.new_event_loop()
        _LIB = L
    return _LIB


def reset_lib():
    L = lib()
    L.mock.patch.stopall()
    del L.mock._patch._active_patches[:]
    L.scheduler.reset()
    L.profiler.reset()
    L.tools.DeduplicateDecorator.tasks.clear()
    L.batching._debug_batch_state.batches.clear()
    sys.modules.pop(MODNAME, None)


def worker_init(env):
    from .. import progx
    progx.worker_init(env)
    lib()


# ----------------------------------------------------------------------------------------------------------------
# worlds: a fresh module with every target kind


class World(object):
    pass


def make_world(register=True):
    L = lib()
    w = World()
    w.olog = olog = []

    def orig(tag, a, b, k):
        olog.append(tag)
        return ("orig", tag, a, b, k)

    @L.asynq()
    def fn(a, b=DB, *, k=DK):
        return orig("fn", a, b, k)

    @L.asynq()
    def method(self, a, b=DB, *, k=DK):
        return orig("method", a, b, k)

    @L.asynq()
    @classmethod
    def cmethod(cls, a, b=DB, *, k=DK):
        return orig("cmethod", a, b, k)

    @L.asynq()
    @staticmethod
    def smethod(a, b=DB, *, k=DK):
        return orig("smethod", a, b, k)

    def plain(self, a, b=DB, *, k=DK):
        return orig("plain", a, b, k)

    limit = ("limit", 10)
    # every target also exists under a second name (e.g. `from storage import fetch` in another module)
    cls = type("C19Cls", (object,), {"method": method, "cmethod": cmethod, "smethod": smethod, "plain": plain,
                                     "limit": limit, "method_alias": method, "cmethod_alias": cmethod,
                                     "smethod_alias": smethod, "plain_alias": plain, "limit_alias": limit,
                                     "__module__": MODNAME})
    mod = types.ModuleType(MODNAME)
    mod.fn = fn
    mod.fn_alias = fn
    mod.Cls = cls
    mod.inst = cls()
    w.mod, w.cls, w.inst = mod, cls, mod.inst
    if register:
        sys.modules[MODNAME] = mod
    return w


class Site(object):
    """one patched place: owner object, attribute name, dotted name, getter as a caller reaches it, originals"""

    def __init__(self, w, tk, alias=False):
        owner, name, dotted, get = target_info(w, tk)
        if alias:
            name, dotted = name + "_alias", dotted + "_alias"
            path = dotted[len(MODNAME) + 1:].split(".")
            if tk in ("method", "cm_inst", "sm_inst", "plain_method"):
                path = ["inst", path[-1]]  # reached through the instance, patched on the class

            def get(path=path):
                o = w.mod
                for a in path:
                    o = getattr(o, a)
                return o
        self.tk, self.owner, self.name, self.dotted, self.get, self.alias = tk, owner, name, dotted, get, alias
        self.original = vars(owner).get(name, None)
        self.class_original = vars(w.cls).get(name, None)

    def installed(self):
        return vars(self.owner).get(self.name, None)

    def label(self):
        return "alias " if self.alias else ""


def target_info(w, tk):
    """(owner, attribute name, dotted name, getter of the attribute as a caller reaches it)"""
    if tk == "modfn":
        return w.mod, "fn", MODNAME + ".fn", lambda: w.mod.fn
    if tk == "method":
        return w.cls, "method", MODNAME + ".Cls.method", lambda: w.mod.inst.method
    if tk == "cm_cls":
        return w.cls, "cmethod", MODNAME + ".Cls.cmethod", lambda: w.mod.Cls.cmethod
    if tk == "cm_inst":
        return w.cls, "cmethod", MODNAME + ".Cls.cmethod", lambda: w.mod.inst.cmethod
    if tk == "sm_cls":
        return w.cls, "smethod", MODNAME + ".Cls.smethod", lambda: w.mod.Cls.smethod
    if tk == "sm_inst":
        return w.cls, "smethod", MODNAME + ".Cls.smethod", lambda: w.mod.inst.smethod
    if tk == "inst_method":
        return w.inst, "method", MODNAME + ".inst.method", lambda: w.mod.inst.method
    if tk == "plain_method":
        return w.cls, "plain", MODNAME + ".Cls.plain", lambda: w.mod.inst.plain
    if tk == "plain_attr":
        return w.cls, "limit", MODNAME + ".Cls.limit", lambda: w.mod.Cls.limit
    raise ValueError(tk)


def canon(w, x):
    if x is w.inst:
        return "<inst>"
    if x is w.cls:
        return "<Cls>"
    if x is w.mod:
        return "<mod>"
    if isinstance(x, (str, int, type(None))):
        return x
    return "<%s>" % type(x).__name__


def canon_entry(w, e):
    a, k = e
    return (tuple(canon(w, x) for x in a), tuple(sorted((n, canon(w, v)) for n, v in k.items())))


def result_of(args, kwargs):
    return ("repl", tuple(a for a in args if isinstance(a, str)), tuple(sorted(kwargs.items())))


# ----------------------------------------------------------------------------------------------------------------
# replacements


class CallableRec(object):
    """callable object that accepts attributes"""

    def __init__(self):
        self.calls = []

    def __call__(self, *args, **kwargs):
        self.calls.append((args, kwargs))
        return result_of(args, kwargs)


class SlotsRec(object):
    """callable object on which attributes cannot be set"""
    __slots__ = ("calls",)

    def __init__(self):
        self.calls = []

    def __call__(self, *args, **kwargs):
        self.calls.append((args, kwargs))
        return result_of(args, kwargs)


@dataclasses.dataclass(frozen=True)
class FrozenRec(object):
    """callable frozen dataclass instance: has a __dict__, refuses attribute assignment (FrozenInstanceError)"""
    calls: list = dataclasses.field(default_factory=list)

    def __call__(self, *args, **kwargs):
        self.calls.append((args, kwargs))
        return result_of(args, kwargs)


class LockedRec(object):
    """callable object with a __dict__ whose __setattr__ refuses every new attribute"""

    def __init__(self):
        self.__dict__["calls"] = []

    def __setattr__(self, name, value):
        raise AttributeError("LockedRec does not accept attribute %r" % (name,))

    def __call__(self, *args, **kwargs):
        self.calls.append((args, kwargs))
        return result_of(args, kwargs)


class Other(object):
    def __init__(self):
        self.calls = []

    def record(self, *args, **kwargs):
        self.calls.append((args, kwargs))
        return result_of(args, kwargs)


class Repl(object):
    """one replacement: how to hand it to patch(), how to install it directly, how to read its call log"""

    def __init__(self, kind, tk):
        L = lib()
        self.kind = kind
        self.is_callable = kind != "noncallable"
        self.log = log = []
        self.kw = {}
        self.value = None
        self.is_mock = kind in ("default", "new_callable_mock", "new_callable_mock_ws")
        self.from_factory = kind.startswith("new_callable_class")

        def fn(*args, **kwargs):
            log.append((args, kwargs))
            return result_of(args, kwargs)

        if kind == "default":
            self.direct = lambda: L.mock.MagicMock()
        elif kind == "function":
            self.kw["new"] = fn
            self.direct = lambda: fn
        elif kind == "function_like_target":
            wrap = classmethod if tk.startswith("cm_") else staticmethod
            self.kw["new"] = wrap(fn)
            self.direct = lambda: wrap(fn)
        elif kind == "boundmethod":
            o = Other()
            self.log = o.calls
            self.kw["new"] = o.record
            self.direct = lambda: o.record
        elif kind == "callable_obj":
            o = CallableRec()
            self.log = o.calls
            self.kw["new"] = o
            self.direct = lambda: o
        elif kind in ("callable_frozen", "callable_setattr_raises"):
            o = FrozenRec() if kind == "callable_frozen" else LockedRec()
            self.log = o.calls
            self.kw["new"] = o
            self.direct = lambda: o
        elif kind == "mock_spec_set":
            o = L.mock.Mock(spec_set=["__call__"], return_value=RV)
            self.spec_mock = o
            self.kw["new"] = o
            self.direct = lambda: o
        elif kind == "callable_slots":
            o = SlotsRec()
            self.log = o.calls
            self.kw["new"] = o
            self.direct = lambda: o
        elif kind == "asynq_fn":
            self.kw["new"] = L.asynq()(fn)
            self.direct = lambda: L.asynq()(fn)
        elif kind in ("new_callable_mock", "new_callable_mock_ws"):
            self.kw["new_callable"] = L.mock.MagicMock
            self.kw["return_value"] = RV
            self.direct = lambda: L.mock.MagicMock(return_value=RV)
        elif kind in ("new_callable_class", "new_callable_class_ws"):
            self.kw["new_callable"] = CallableRec
            self.direct = CallableRec
        elif kind == "noncallable":
            self.value = ("c19-non-callable",) + (object(),)
            self.kw["new"] = self.value
            self.direct = lambda: self.value
        else:
            raise ValueError(kind)
        if kind.endswith("_ws"):
            self.kw["autospec"] = None

    def prepare(self, installed):
        if self.kind == "default":
            installed.return_value = RV

    def read(self, installed):
        """call log of the replacement, as [(args, kwargs)]"""
        try:
            if self.kind == "mock_spec_set":  # the mock itself keeps the log, whatever object patch() installed for it
                return [(tuple(c[0]), dict(c[1])) for c in self.spec_mock.call_args_list]
            if self.is_mock:
                return [(tuple(c[0]), dict(c[1])) for c in installed.call_args_list]
            if self.from_factory:
                return list(installed.calls)
        except Exception:
            return []
        return list(self.log)


def repl_applicable(rk, tk):
    if rk == "function_like_target":
        return tk in ("cm_cls", "cm_inst", "sm_cls", "sm_inst")
    return True


# ----------------------------------------------------------------------------------------------------------------
# calls


def installed_obj(w, tk):
    owner, name, _, _ = target_info(w, tk)
    return vars(owner).get(name, None)


def call_conv(conv, get, args, kwargs, stats):
    L = lib()
    stats["calls"] = stats.get("calls", 0) + 1
    if conv == "sync":
        return get()(*args, **kwargs)
    if conv == "asynq_value":
        return get().asynq(*args, **kwargs).value()
    if conv == "yield":
        @L.asynq()
        def c19_driver():
            got = yield get().asynq(*args, **kwargs)
            return got
        return c19_driver()
    if conv == "asyncio":
        return L.loop.run_until_complete(get().asyncio(*args, **kwargs))
    raise ValueError(conv)


def _outcome(thunk):
    try:
        return ("ok", _show(thunk()))
    except Boom:
        raise
    except Exception as e:
        return ("err", type(e).__name__, str(e)[:160])


def _show(x):
    """results as comparable, deterministic text-like values (no object ids in messages)"""
    if isinstance(x, tuple):
        return tuple(_show(y) for y in x)
    if isinstance(x, (str, int, type(None))):
        return x
    return "<%s>" % type(x).__name__


_REF = {}


def reference(tk, rk):
    """what a plain setattr() of the same replacement makes of the calls: {conv: (canonical log entry, outcome)}"""
    key = (tk, rk)
    if key in _REF:
        return _REF[key]
    w = make_world(register=False)
    r = Repl(rk, tk)
    owner, name, _, get = target_info(w, tk)
    obj = r.direct()
    setattr(owner, name, obj)
    cur = vars(owner)[name]
    if r.is_mock:
        cur.return_value = RV
    exp = {}
    n = 0
    for conv, (args, kwargs) in CONV_ARGS.items():
        out = _outcome(lambda: get()(*args, **kwargs))
        log = r.read(cur)
        entry = canon_entry(w, log[n]) if len(log) == n + 1 else None
        n = len(log)
        exp[conv] = (entry, out)
    _REF[key] = exp
    return exp


# ----------------------------------------------------------------------------------------------------------------
# one cell


def features(cell):
    f = ["target:" + cell["target"], "repl:" + cell["repl"], "entry:" + cell["entry"], "act:" + cell["act"],
         "exit:" + cell["exit"], "hist:" + cell["hist"]]
    for k in ("repl2", "entry2", "act2", "second"):
        if cell.get(k):
            f.append(k + ":" + cell[k])
    if cell.get("shared"):
        f.append("shared-replacement")
    return f


def describe(cell):
    r = cell["repl"] + ("+" + cell["repl2"] if cell.get("repl2") else "")
    if cell.get("shared"):
        r += " (one object for both patches)"
    if cell.get("second") == "alias":
        r += " [second patch on the target's alias name]"
    e = {"dotted": "patch('dotted')", "object": "patch.object"}
    return "%s <- %s / %s / %s / exit %s / %s" % (
        cell["target"], r, e[cell["entry"]] + ("+" + e[cell["entry2"]] if cell.get("entry2") else ""),
        cell["act"] + (">" + cell["act2"] if cell.get("act2") else ""), cell["exit"], cell["hist"])


def make_patcher(site, repl, entry):
    L = lib()
    if entry == "dotted":
        return L.patch(site.dotted, **repl.kw)
    return L.patch.object(site.owner, site.name, **repl.kw)


def run_active(patchers, act, exc, inside, after_outer, mid, stats):
    """activates 1 or 2 patchers (outer first), runs inside() with all of them active, leaves by the given exit path.
    after_outer(): outer active, inner not yet; mid(): inner ended, outer still active (where observable)."""
    L = lib()
    stats["calls"] = stats.get("calls", 0) + len(patchers)
    two = len(patchers) == 2

    def body(*margs, **mkw):
        inside()
        if exc:
            raise Boom()

    try:
        if act == "with":
            with patchers[0]:
                if not two:
                    body()
                else:
                    after_outer()
                    try:
                        with patchers[1]:
                            body()
                    finally:
                        mid()
        elif act == "decorator":
            def test_fn(*margs, **mkw):
                body()
            t = test_fn
            for p in patchers:
                t = p(t)
            t()
        elif act == "classdecorator":
            class C19Test(object):
                def test_it(self, *margs, **mkw):
                    body()
            t = C19Test
            for p in patchers:
                t = p(t)
            t().test_it()
        elif act == "startstop":
            started = []
            try:
                for i, p in enumerate(patchers):
                    p.start()
                    started.append(p)
                    if two and i == 0:
                        after_outer()
                body()
            finally:
                if len(started) == 2:
                    started[1].stop()
                    mid()
                if started:
                    started[0].stop()
        elif act == "stopall":
            try:
                for p in patchers:
                    p.start()
                body()
            finally:
                L.patch.stopall()
        else:
            raise ValueError(act)
    except Boom:
        if not exc:
            raise


def run_one(p, act, body):
    """activates one patcher in the given style around body()"""
    L = lib()
    if act == "with":
        with p:
            body()
    elif act == "decorator":
        def test_fn(*margs, **mkw):
            body()
        p(test_fn)()
    elif act == "classdecorator":
        class C19Test(object):
            def test_it(self, *margs, **mkw):
                body()
        p(C19Test)().test_it()
    elif act == "startstop":
        p.start()
        try:
            body()
        finally:
            p.stop()
    elif act == "stopall":
        p.start()
        try:
            body()
        finally:
            L.patch.stopall()
    else:
        raise ValueError(act)


def run_composed(p1, act1, p2, act2, exc, inside, after_outer, mid, stats):
    """outer patcher activated in style act1; inside its body the inner one is activated in style act2"""
    stats["calls"] = stats.get("calls", 0) + 2

    def inner_body():
        inside()
        if exc:
            raise Boom()

    def outer_body():
        after_outer()
        try:
            run_one(p2, act2, inner_body)
        finally:
            mid()

    try:
        run_one(p1, act1, outer_body)
    except Boom:
        if not exc:
            raise


def run_cell(cell, stats=None):
    """executes one cell in a fresh world; returns a list of (sig, msg, extra features)"""
    if stats is None:
        stats = {}
    reset_lib()
    try:
        return _run_cell(cell, stats)
    finally:
        reset_lib()


def _run_cell(cell, stats):
    tk, entry, act, hist = cell["target"], cell["entry"], cell["act"], cell["hist"]
    exc = cell["exit"] == "exception"
    viol = []

    def v(sig, msg, *extra):
        viol.append((sig, "%s: %s" % (describe(cell), msg), list(extra)))

    w = make_world()
    site1 = Site(w, tk)
    site2 = Site(w, tk, alias=True) if cell.get("second") == "alias" else site1
    r1 = Repl(cell["repl"], tk)
    if cell.get("shared"):
        r2 = r1  # the very same replacement object is handed to both patches
    elif cell.get("repl2"):
        r2 = Repl(cell["repl2"], tk)
    elif hist in ("nested", "sequential", "overlap_fifo"):
        r2 = Repl(cell["repl"], tk)  # a second, fresh replacement of the same kind
    else:
        r2 = None
    is_async = tk in ASYNC_TARGETS

    def check_restored(site, when):
        owner, name = site.owner, site.name
        now = vars(owner).get(name, None)
        if tk == "inst_method":
            if name in vars(owner):
                v("not-restored", "%s: the instance still carries the patched %sattribute (%s)" % (when, site.label(), type(now).__name__))
            if vars(w.cls).get(name) is not site.class_original:
                v("not-restored", "%s: the class attribute behind the patched instance changed" % when)
        elif now is not site.original:
            v("not-restored", "%s: vars(owner)[%r] is %s, not the original object" % (
                when, name, "missing" if name not in vars(owner) else "a " + type(now).__name__))

    def make_inside(repl, site, convs=CONVS):
        name = site.name

        def inside():
            cur = site.installed()
            if not repl.is_callable:
                if cur is not repl.value:
                    v("not-installed-as-is", "non-callable replacement: vars(owner)[%r] is a %s, not the given object" % (name, type(cur).__name__))
                return
            if cur is None or cur is site.original:
                v("not-installed", "the %sattribute is still %s while the patch is active" % (site.label(), "the original" if cur is site.original else "missing"))
                return
            repl.prepare(cur)
            exp = reference(tk, repl.kind)
            n = len(repl.read(cur))
            for conv in convs:
                if conv != "sync" and not is_async:
                    continue
                args, kwargs = CONV_ARGS[conv]
                out = _outcome(lambda: call_conv(conv, site.get, args, kwargs, stats))
                log = repl.read(site.installed())
                new = log[n:]
                n = len(log)
                e_entry, e_out = exp[conv]
                f = "conv:" + conv
                lab = site.label() + conv
                if out[0] == "err" and e_out[0] == "ok":
                    v("convention-raised", "%s raised %s: %s" % (lab, out[1], out[2]), f)
                    continue
                if len(new) != 1:
                    v("replacement-not-reached", "%s: the replacement was called %d times (expected once)" % (lab, len(new)), f)
                elif canon_entry(w, new[0]) != e_entry:
                    v("wrong-arguments", "%s: the replacement received %r, a plain call of the directly installed replacement passes %r"
                      % (lab, canon_entry(w, new[0]), e_entry), f)
                if out != e_out:
                    v("result-mismatch", "%s returned %r, expected %r" % (lab, out[1:], e_out[1:]), f)
            if w.olog:
                v("original-ran", "the original body ran while patched: %r" % (w.olog,))
                del w.olog[:]
        return inside

    act2, entry2 = cell.get("act2"), cell.get("entry2") or entry

    def activate(patchers, inside, after_outer=lambda: None, mid=lambda: None, label="", style=None):
        try:
            if len(patchers) == 2 and act2:
                run_composed(patchers[0], act, patchers[1], act2, exc, inside, after_outer, mid, stats)
            else:
                run_active(patchers, style or act, exc, inside, after_outer, mid, stats)
        except Exception as e:
            v("patch-activation-failed", "%sactivating / ending the patch raised %s: %s" % (label, type(e).__name__, str(e)[:160]))
            lib().mock.patch.stopall()

    def construct(repl, site, how=None):
        try:
            return make_patcher(site, repl, how or entry)
        except Exception as e:
            v("patch-construction-failed", "creating the patcher for replacement %s raised %s: %s" % (repl.kind, type(e).__name__, str(e)[:160]))
            return None

    def both_inside():
        # every patch that is active is exercised: the outer / first target as well as the inner / second one
        if site2 is not site1:
            make_inside(r1, site1)()
        make_inside(r2, site2)()

    def restored_all(when):
        check_restored(site1, when)
        if site2 is not site1:
            check_restored(site2, when)

    if hist == "single":
        p = construct(r1, site1)
        if p is not None:
            activate([p], make_inside(r1, site1))
            check_restored(site1, "after the patch ended")
    elif hist == "same_patcher_twice":
        p = construct(r1, site1)
        if p is not None:
            activate([p], make_inside(r1, site1), label="first use: ")
            check_restored(site1, "after the first use")
            activate([p], make_inside(r1, site1), label="second use: ")
            check_restored(site1, "after the second use")
    elif hist == "sequential":
        p1, p2 = construct(r1, site1), construct(r2, site2, entry2)
        if p1 is not None:
            activate([p1], make_inside(r1, site1), label="first patch: ")
            restored_all("after the first patch")
        if p2 is not None:
            activate([p2], make_inside(r2, site2), label="second patch: ", style=act2)
            restored_all("after the second patch")
    elif hist == "nested":
        p1, p2 = construct(r1, site1), construct(r2, site2, entry2)
        state = {}
        # patch.stopall() as the inner ending also stops an outer patch that was start()ed: no intermediate state then
        mid_observable = not (act2 == "stopall" and act in ("startstop", "stopall"))

        def after_outer():
            state["outer"] = site1.installed()

        def mid():
            if "outer" not in state or not mid_observable:
                return
            now = site1.installed()
            if now is not state["outer"]:
                v("inner-restore-wrong", "after the inner patch ended vars(owner)[%r] is a %s, not the outer replacement" % (site1.name, type(now).__name__))
                return
            if site2 is not site1:
                check_restored(site2, "after the inner patch ended")
            # the outer patch is still active: every convention must keep reaching its replacement
            make_inside(r1, site1)()

        if p1 is not None and p2 is not None:
            activate([p1, p2], both_inside, after_outer, mid)
            restored_all("after both patches ended")
    elif hist == "overlap_fifo":
        # two targets, start/start, the FIRST patch is stopped first: the second must stay fully working
        p1, p2 = construct(r1, site1), construct(r2, site2, entry2)
        if p1 is not None and p2 is not None:
            stats["calls"] = stats.get("calls", 0) + 2
            started = []
            try:
                try:
                    for p in (p1, p2):
                        p.start()
                        started.append(p)
                    both_inside()
                    if exc:
                        raise Boom()
                finally:
                    if started:
                        p1.stop()
                        check_restored(site1, "after the first patch was stopped")
                    if len(started) == 2:
                        make_inside(r2, site2)()
                        p2.stop()
            except Boom:
                pass
            except Exception as e:
                v("patch-activation-failed", "starting / stopping raised %s: %s" % (type(e).__name__, str(e)[:160]))
                lib().mock.patch.stopall()
            restored_all("after both patches were stopped")
    else:
        raise ValueError(hist)
    return viol


# ----------------------------------------------------------------------------------------------------------------
# product enumeration


# first (outer) replacement of nested / sequential histories in the quick tier; the thorough tier uses all of PAIR_REPLS
QUICK_FIRST = ["default", "function", "boundmethod", "callable_slots", "noncallable"]


def pair_repls(tier):
    return PAIR_REPLS


def first_repls(tier):
    return PAIR_REPLS if tier == "thorough" else QUICK_FIRST


# replacement kinds where the caller hands ONE object to patch(): these can be shared by two patches
SHAREABLE = ["function", "function_like_target", "boundmethod", "callable_obj", "callable_slots", "callable_frozen",
             "callable_setattr_raises", "mock_spec_set", "asynq_fn", "noncallable"]
# (second target, shared object) variants of the nested / sequential / overlap_fifo histories
VARIANTS = [("same", True), ("alias", True), ("alias", False)]


def cells_of(job):
    tk, hist, r1 = job["target"], job["hist"], job["repl"]
    seconds = job.get("repl2s") or [None]
    mixed = bool(job.get("mixed"))
    acts = ["startstop"] if hist == "overlap_fifo" else ACTIVATIONS
    for r2 in seconds:
        for entry in ENTRIES:
            for act in acts:
                for entry2 in (ENTRIES if mixed else [None]):
                    for act2 in (ACTIVATIONS if mixed else [None]):
                        for ex in EXITS:
                            c = {"target": tk, "repl": r1, "entry": entry, "act": act, "exit": ex, "hist": hist}
                            if r2:
                                c["repl2"] = r2
                            if job.get("second"):
                                c["second"] = job["second"]
                            if job.get("shared"):
                                c["shared"] = True
                            if mixed:
                                c["entry2"] = entry2
                                c["act2"] = act2
                            yield c


def jobs(tier, seed):
    for hist in HISTORIES:
        for tk in TARGETS:
            if hist in ("single", "same_patcher_twice"):
                for r1 in REPLS:
                    if repl_applicable(r1, tk):
                        yield {"target": tk, "hist": hist, "repl": r1}
            else:
                seconds = [r for r in pair_repls(tier) if repl_applicable(r, tk)]
                for r1 in first_repls(tier):
                    if repl_applicable(r1, tk):
                        yield {"target": tk, "hist": hist, "repl": r1, "repl2s": seconds}
    # both patches use the very same replacement object (same target / the target's second name), and the
    # two-names control with two fresh replacements of one kind
    for second, shared in VARIANTS:
        for hist in ("nested", "sequential", "overlap_fifo"):
            if hist == "overlap_fifo" and second == "same":
                continue  # unittest.mock only supports innermost-first for one target
            for tk in TARGETS:
                for r1 in (SHAREABLE if shared else PAIR_REPLS):
                    if repl_applicable(r1, tk):
                        yield {"target": tk, "hist": hist, "repl": r1, "second": second, "shared": shared}
                        if tier == "thorough" and hist != "overlap_fifo":
                            yield {"target": tk, "hist": hist, "repl": r1, "second": second, "shared": shared, "mixed": True}
    if tier == "thorough":
        # second patch with its own entry point and activation style: nested = inner activated inside the outer's
        # body (e.g. decorator outside, with-block inside); sequential = second patch in another style
        for hist in ("nested", "sequential"):
            for tk in TARGETS:
                seconds = [r for r in pair_repls(tier) if repl_applicable(r, tk)]
                for r1 in seconds:
                    for r2 in seconds:
                        yield {"target": tk, "hist": hist, "repl": r1, "repl2s": [r2], "mixed": True}


def is_nontrivial(cell):
    return cell["repl"] != "default" or (cell.get("repl2") or "default") != "default" or cell["target"] in BOUND_TARGETS


def run(job, env):
    hb = env["hb"]
    out = {"evals": 0, "states": 0, "transitions": 0, "nontrivial": 0, "violations": [], "samples": [], "counters": {}}
    cnt = out["counters"]
    stats = {}
    first_build = env["build"] == BUILDS[0]
    for i, cell in enumerate(cells_of(job)):
        if i % 16 == 0:
            hb[0] = time.time()
            hb[2] = i
        viol = run_cell(cell, stats)
        out["evals"] += 1
        if first_build:
            out["states"] += 1
        if is_nontrivial(cell):
            out["nontrivial"] += 1
        key = "cells:" + cell["hist"] + (" (second patch in its own style)" if cell.get("act2") else "")
        if cell.get("second") or cell.get("shared"):
            key += " [%s, %s]" % ("same target" if cell.get("second") != "alias" else "second patch on the alias name",
                                  "one shared replacement object" if cell.get("shared") else "two fresh replacements")
        cnt[key] = cnt.get(key, 0) + 1
        for sig, msg, extra in viol:
            cnt["viol:" + sig] = cnt.get("viol:" + sig, 0) + 1
            if len(out["violations"]) < 30:
                out["violations"].append({"sig": sig, "msg": msg, "features": features(cell) + extra, "case": cell})
        if not out["samples"] and cell["hist"] == "nested" and cell["exit"] == "exception" and cell["act"] == "startstop":
            out["samples"].append(dict(cell))
    out["transitions"] = stats.get("calls", 0)
    return out


def replay(case, env):
    cell = dict(case)
    if "job" in cell and "target" not in cell:  # watchdog case (hang / worker-died): re-run the whole job
        return run(cell["job"], env)["violations"]
    return [{"sig": sig, "msg": msg, "features": features(cell) + extra, "case": cell} for sig, msg, extra in run_cell(cell)]


def finish(acc, tier):
    return {"bounds": {
        "targets": TARGETS, "replacements": REPLS, "second replacement (nested / sequential)": PAIR_REPLS,
        "first replacement (nested / sequential)": first_repls(tier),
        "entry points": ENTRIES, "activations": ACTIVATIONS, "exits": EXITS, "histories": HISTORIES + ["overlap_fifo"],
        "shared-replacement variants of nested / sequential / overlap_fifo": {
            "variants": ["same target, both patches get the very same replacement object",
                         "target and its alias name, both patches get the very same replacement object",
                         "target and its alias name, two fresh replacements of one kind (control)"],
            "replacement kinds that can be shared": SHAREABLE,
            "overlap_fifo": "two names, start(), start(), the first patch is stopped first (start/stop activation only)"},
        "second patch of nested / sequential histories": (
            "same entry point and activation as the first (stacked with-blocks / stacked decorators / start,start,stop,stop / "
            "start,start,stopall)" + ("; plus every entry point x activation pair, the inner patch activated inside the outer's body"
                                      if tier == "thorough" else "; all entry point x activation pairs in the thorough tier")),
        "conventions inside the patch": {k: repr(v) for k, v in CONV_ARGS.items()},
        "skipped / not judged": SKIPPED,
    }}
