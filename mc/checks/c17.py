"""C17 - async generators deliver their Values in order, and only those.

Bounded exhaustive exploration of the real asynq.generator machinery:

  bodies     every sequence over the step alphabet {V: yield Value(token), B: await a blocking DebugBatchItem,
             K: await a ConstFuture, T: await an @asynq task (which itself blocks on a batch item)} up to length L,
             plus nested bodies (an @async_generator body that consumes another async generator and re-yields
             its Values) built from every inner body up to length Ln inside every outer template
  consumers  family "single": list_of_generator(gen); take_first(gen, n) followed by list_of_generator(gen) for
             every n in 0..len+1; each under two calling conventions (synchronous call / awaited from a task)
             family "hist": every operation sequence of length H over
                 tf0 tf1 tf2  take_first(gen, n)
                 ls           list_of_generator(gen)
                 nx           next(gen) and compute the returned future
                 nn           next(gen) WITHOUT computing what it returned, then next(gen) again
                 cp           compute the future left behind by nn
             on ONE generator object (a sequence of length H exercises each of its prefixes, i.e. all sequences
             of length <= H)
  oracle     a reference list of Values with a cursor (class Model): results are the Values in program order /
             their n-prefix; END_OF_GENERATOR never in a result; after take_first(gen, n) the body has not begun
             any step after the yield of the n-th Value (n = 0: the state of the body is unchanged, a fresh body has
             not been entered); a following list_of_generator returns exactly the rest; advancing while the future
             returned by the previous next() is not computed raises RuntimeError; once exhaustion has been
             signalled, next() raises StopIteration every time and the consumers return [].
"""
import itertools
import time

ID = "C17"
ENGINE = "HISTX"
BUILDS = ("pure", "compiled")
RULE = ("every @async_generator body = sequence over {yield Value, await blocking batch item, await ConstFuture, await "
        "@asynq task} up to length 5 (quick) / 7 (thorough); every body up to length 4 (quick) / 5 (thorough) over the "
        "extended 10-step alphabet that adds Values whose payload is itself a future (an uncomputed @asynq task object, a "
        "ConstFuture - delivered by identity, never run by the machinery) and awaits of the falsy structures [] () {} None, "
        "so that each of them occurs first, after a Value and after an await (histories of length 3 up to body length 3 "
        "(quick) / 4 (thorough), length 2 for the longest bodies); Value tokens carry what the preceding await received; "
        "plus nested bodies (every inner body up to length 3/4 "
        "inside 9 outer templates, and 2-level nesting); consumers: list_of_generator, take_first(gen, n)+list for every "
        "n in 0..len+1 under two calling conventions, and every consumer history of length <= 3 (quick) / 4 (thorough; 3 "
        "for bodies of length 7) "
        "over {take_first 0/1/2, list_of_generator, next+compute, next-without-computing+next, compute-the-leftover} "
        "on one generator object; compared step by step with a list-of-Values-with-cursor reference, with a step "
        "counter inside the body for 'consumed no more than needed'. non-trivial = cases whose body interleaves at "
        "least one await with at least one Value")
EXPLANATION = ("explicit enumeration of generator bodies x consumer operation histories on the real _AsyncGenerator / "
               "list_of_generator / take_first, lock-step against a cursor model")
TECHNIQUE = "explicit-state exploration of operation histories on the real objects vs reference state machine"
ASSUMPTIONS = [
    "bodies do not raise and Values carry distinct tuple tokens (failures inside bodies are not part of the statement)",
    "for the raw iterator protocol both documented ways of signalling exhaustion are accepted the first time "
    "(StopIteration from next(), or a future whose value is END_OF_GENERATOR when awaits follow the last Value) - but "
    "only when no Value remains; afterwards StopIteration is required every time",
    "take_first(gen, 0) while the future of a previous next() is still uncomputed: [] and RuntimeError are both accepted "
    "(the statement does not say whether n = 0 counts as advancing)",
    "a history of length H also decides each of its prefixes (operations are deterministic and judged one by one)",
]

ALPHA = "VBKT"  # core steps: yield Value(token) / await blocking batch item / await ConstFuture / await @asynq task
# extended steps: F = yield Value(<uncomputed @asynq task object>), C = yield Value(<ConstFuture object>) - a Value whose
# payload is itself a future must be delivered as is (identity); L P D N = await of a falsy structure: [] () {} None
ALPHA_EXT = "VBKTFCLPDN"
VALUE_KINDS = "VFC"
FALSY = {"L": list, "P": tuple, "D": dict, "N": None}
OPS = ["tf0", "tf1", "tf2", "ls", "nx", "nn", "cp"]
BOUNDS = {
    # H: history length for bodies up to length Lhist; longer bodies (up to L) get histories of length H2
    # Lx: bodies over the extended alphabet; histories of length Hx up to body length Lxh, Hx2 for longer ones;
    # Lnx: nested inner bodies over the extended alphabet
    "quick": {"L": 5, "H": 3, "Ln": 3, "Hn": 2, "Lhist": 5, "H2": 3, "Lx": 4, "Lxh": 3, "Hx": 3, "Hx2": 2, "Lnx": 2},
    "thorough": {"L": 7, "H": 4, "Ln": 4, "Hn": 3, "Lhist": 6, "H2": 3, "Lx": 5, "Lxh": 4, "Hx": 3, "Hx2": 2, "Lnx": 3},
}
MAX_VIOL_PER_JOB = 12

# --------------------------------------------------------------------------------------------------
# body terms:  a term is a list of steps; a step is "V" | "B" | "K" | "T" | ["G", term]


def term_of_index(L, idx, alpha=ALPHA):
    out = []
    n = len(alpha)
    for _ in range(L):
        out.append(alpha[idx % n])
        idx //= n
    return out


def is_core(term):
    for s in term:
        if isinstance(s, str):
            if s not in ALPHA:
                return False
        elif not is_core(s[1]):
            return False
    return True


class Obj(object):
    """reference-side stand-in for 'the very object that step i wrapped in Value(...)'"""

    __slots__ = ("i",)

    def __init__(self, i):
        self.i = i

    def __repr__(self):
        return "<the future wrapped by step %d>" % self.i


def same(got, exp, R):
    """got (from the implementation) is the expected Value payload: identity for future payloads, equality of value AND
    container type for tokens"""
    if exp.__class__ is Obj:
        return got is R.payloads.get(exp.i, R)
    if got.__class__ is not exp.__class__:
        return False
    if exp.__class__ is tuple:
        if len(got) != len(exp):
            return False
        for a, b in zip(got, exp):
            if not same(a, b, R):
                return False
        return True
    return got == exp


def same_list(got, exp, R):
    if len(got) != len(exp):
        return False
    for a, b in zip(got, exp):
        if not same(a, b, R):
            return False
    return True


def flatten(term, depth=0, out=None):
    """-> list of (kind, wrap depth, prev) of the primitive steps in program order; prev = what the most recent await
    of the same body invocation received (a Value's token carries it, so a Value is only right if the awaits before
    it delivered the right results)"""
    if out is None:
        out = []
    prev = None
    for s in term:
        if isinstance(s, str):
            out.append((s, depth, prev))
            if s not in VALUE_KINDS:
                prev = expected_await(s, len(out) - 1)
        else:
            flatten(s[1], depth + 1, out)
    return out


def expected_await(kind, i):
    if kind == "B":
        return ("b", i)
    if kind == "K":
        return ("k", i)
    if kind in FALSY:
        f = FALSY[kind]
        return None if f is None else f()
    return ("t", ("tb", i))


def token(i, depth, prev, kind="V"):
    v = ("v", i, prev) if kind == "V" else Obj(i)
    for _ in range(depth):
        v = ("o", v)
    return v


def term_str(term):
    return "".join(s if isinstance(s, str) else "G(" + term_str(s[1]) + ")" for s in term)


OUTER_PRE = [[], ["V"], ["B"]]
OUTER_POST = [[], ["V"], ["B"]]


def nested_terms(Ln, Lnx=0):
    # inner bodies over the extended alphabet (those with at least one extended step; the others follow below)
    for L in range(1, Lnx + 1):
        for idx in range(len(ALPHA_EXT) ** L):
            inner = term_of_index(L, idx, ALPHA_EXT)
            if is_core(inner):
                continue
            for pre in OUTER_PRE:
                for post in OUTER_POST:
                    yield pre + [["G", inner]] + post
    for L in range(0, Ln + 1):
        for idx in range(4 ** L):
            inner = term_of_index(L, idx)
            for pre in OUTER_PRE:
                for post in OUTER_POST:
                    yield pre + [["G", inner]] + post
    # two levels of nesting / two inner generators in a row, small inner bodies
    for L in range(0, 3):
        for idx in range(4 ** L):
            inner = term_of_index(L, idx)
            yield [["G", [["G", inner]]]]
            yield [["G", ["V", ["G", inner], "B"]]]
            yield [["G", inner], ["G", inner]]


# --------------------------------------------------------------------------------------------------
# reference model


class Model(object):
    """list of Values with a cursor.  pos = index of the next primitive step of the body to begin."""

    def __init__(self, prims):
        self.prims = prims
        self.n = len(prims)
        self.pos = 0
        self.ended = False  # exhaustion has been signalled / the body ran off its end
        self.pending = False  # a future returned by next() is still uncomputed

    def key(self):
        return (self.pos, self.ended, self.pending)

    def remaining(self):
        return [token(i, d, p, k) for i, (k, d, p) in enumerate(self.prims) if k in VALUE_KINDS and i >= self.pos]

    def advance(self):
        """-> (True, token, index) for the next Value, or (False, None, None): ran to the end"""
        if not self.ended:
            for i in range(self.pos, self.n):
                k, d, p = self.prims[i]
                if k in VALUE_KINDS:
                    self.pos = i + 1
                    return True, token(i, d, p, k), i
        self.pos = self.n
        self.ended = True
        return False, None, None

    def take(self, n):
        """-> (values, index of the last consumed step or None when the body had to run to its end)"""
        vals = []
        last = None
        while n is None or len(vals) < n:
            ok, v, i = self.advance()
            if not ok:
                return vals, None
            vals.append(v)
            last = i
        return vals, last


# --------------------------------------------------------------------------------------------------
# the real thing (worker side)

_rt = None


class _Run(object):
    __slots__ = ("last", "entered", "ended", "got", "payloads")

    def __init__(self):
        self.last = -1  # global index of the last primitive step begun
        self.entered = 0  # top-level body entered
        self.ended = 0  # top-level body ran off its end
        self.got = []  # (index, value received from the await)
        self.payloads = {}  # index -> the future object wrapped in Value(...) by an F / C step


def _runtime():
    """builds the asynq-side functions once per worker"""
    global _rt
    if _rt is not None:
        return _rt
    import asynq
    from asynq import asynq as asynq_deco, async_generator, Value, ConstFuture, END_OF_GENERATOR
    from asynq import list_of_generator, take_first
    from asynq.batching import DebugBatchItem

    @asynq_deco()
    def sub(i):
        r = yield DebugBatchItem("c17t", ("tb", i))
        return ("t", r)

    def size(term):
        n = 0
        for s in term:
            n += 1 if isinstance(s, str) else size(s[1])
        return n

    @async_generator()
    def body(term, base, R, top):
        if top:
            R.entered += 1
        idx = base
        prev = None
        for s in term:
            if s.__class__ is str:
                R.last = idx
                if s == "V":
                    yield Value(("v", idx, prev))
                elif s == "F":
                    R.payloads[idx] = sub.asynq(("payload", idx))  # handed out for the consumer to await; never run here
                    yield Value(R.payloads[idx])
                elif s == "C":
                    R.payloads[idx] = ConstFuture(("payload", idx))
                    yield Value(R.payloads[idx])
                else:
                    if s == "L":
                        prev = yield []
                    elif s == "P":
                        prev = yield ()
                    elif s == "D":
                        prev = yield {}
                    elif s == "N":
                        prev = yield None
                    elif s == "B":
                        prev = yield DebugBatchItem("c17b", ("b", idx))
                    elif s == "K":
                        prev = yield ConstFuture(("k", idx))
                    else:
                        prev = yield sub.asynq(idx)
                    R.got.append((idx, prev))
                idx += 1
            else:
                inner = body(s[1], idx, R, False)
                for task in inner:
                    v = yield task
                    if v is END_OF_GENERATOR:
                        continue
                    yield Value(("o", v))
                idx += size(s[1])
        if top:
            R.ended += 1

    @asynq_deco()
    def via_task(kind, gen, n):
        if kind == "ls":
            r = yield list_of_generator.asynq(gen)
        else:
            r = yield take_first.asynq(gen, n)
        return r

    class RT(object):
        pass

    rt = RT()
    rt.body = body
    rt.via_task = via_task
    rt.list_of_generator = list_of_generator
    rt.take_first = take_first
    rt.END = END_OF_GENERATOR
    _rt = rt
    return rt


class Bad(Exception):
    def __init__(self, sig, msg, feats):
        Exception.__init__(self, msg)
        self.sig = sig
        self.msg = msg
        self.feats = feats


def run_history(term, ops, conv, stats=None):
    """Runs one consumer history on a fresh generator.  Returns None or a violation (sig, msg, features)."""
    from .. import diag
    rt = _runtime()
    diag.reset_asynq()
    prims = flatten(term)
    m = Model(prims)
    R = _Run()
    gen = rt.body(term, 0, R, True)
    END = rt.END
    dangling = None
    seen = set()
    seen.add(m.key())
    try:
        for step, op in enumerate(ops):
            where = "op %d (%s) of %s on body %s" % (step, op, ops, term_str(term) or "<empty>")
            before = (R.last, R.entered, R.ended)
            if op == "ls" or op.startswith("tf"):
                n = None if op == "ls" else int(op[2:])
                name = "list_of_generator" if n is None else "take_first"
                feats = ["consumer:" + name, "conv:" + conv] + ([] if n is None else ["n:%d" % n])
                if step > 0:
                    feats.append("after:" + ops[step - 1])
                try:
                    if conv == "task":
                        res = rt.via_task(op if n is None else "tf", gen, n)
                    elif n is None:
                        res = rt.list_of_generator(gen)
                    else:
                        res = rt.take_first(gen, n)
                    exc = None
                except Exception as e:
                    res, exc = None, e
                if m.pending:
                    # the future of a previous next() is uncomputed: any advance must raise RuntimeError
                    if n == 0 and exc is None and res == []:
                        continue
                    if not isinstance(exc, RuntimeError):
                        raise Bad("no-runtime-error", "%s: the future returned by the previous next() is not computed, "
                                  "expected RuntimeError, got %s" % (where, _show(res, exc)), feats + ["state:pending"])
                    continue
                if exc is not None:
                    raise Bad("unexpected-exception", "%s raised %r" % (where, exc), feats)
                if res.__class__ is not list:
                    raise Bad("result-type", "%s returned %r (not a list)" % (where, res), feats)
                for x in res:
                    if x is END:
                        raise Bad("end-marker-leaked", "%s: END_OF_GENERATOR appears in the result %r" % (where, res), feats)
                if n == 0:
                    exp, last = [], "same"
                else:
                    exp, last = m.take(n)
                if not same_list(res, exp, R):
                    if n == 0:
                        raise Bad("take_first-zero", "%s returned %r, expected [] (remaining Values: %r)"
                                  % (where, res, m.remaining()), feats + ["clause:result"])
                    raise Bad("list-result" if n is None else "take_first-result",
                              "%s returned %r, expected %r" % (where, res, exp), feats)
                if last == "same":
                    if (R.last, R.entered, R.ended) != before:
                        raise Bad("take_first-zero", "%s returned [] but advanced the body although n = 0: (last step begun, "
                                  "entered, ran off end) %r -> %r" % (where, before, (R.last, R.entered, R.ended)),
                                  feats + ["clause:consumed"])
                elif last is not None:
                    if R.last > last or R.ended:
                        raise Bad("take_first-overconsumed", "%s: body has begun step %d%s, the n-th Value is yielded by step %d"
                                  % (where, R.last, " and ran off its end" if R.ended else "", last), feats)
                    if R.last < last:
                        raise Bad("harness", "%s: step counter %d behind the consumed Value at %d" % (where, R.last, last), feats)
            elif op == "nx" or op == "nn":
                feats = ["consumer:next", "op:" + op]
                try:
                    fut = next(gen)
                    exc = None
                except (StopIteration, RuntimeError) as e:
                    fut, exc = None, e
                if m.pending:
                    if not isinstance(exc, RuntimeError):
                        raise Bad("no-runtime-error", "%s: the future returned by the previous next() is not computed, "
                                  "expected RuntimeError, got %s" % (where, _show(fut, exc)), feats + ["state:pending"])
                    continue
                if isinstance(exc, RuntimeError):
                    raise Bad("unexpected-exception", "%s raised %r although nothing is pending" % (where, exc), feats)
                if m.ended:
                    if not isinstance(exc, StopIteration):
                        raise Bad("stop-iteration-not-sticky", "%s: generator already exhausted, expected StopIteration, got %s"
                                  % (where, _show(fut, exc)), feats + ["state:exhausted"])
                    if op == "nn":
                        _expect_stop(gen, where, feats)
                    continue
                if isinstance(exc, StopIteration):
                    ok, v, _ = m.advance()
                    if ok:
                        raise Bad("next-value", "%s raised StopIteration but Value %r has not been delivered" % (where, v), feats)
                    if op == "nn":
                        _expect_stop(gen, where, feats)
                    continue
                if op == "nn" and not fut.is_computed():
                    # do not compute it; advance again
                    try:
                        f2 = next(gen)
                        e2 = None
                    except (StopIteration, RuntimeError) as e:
                        f2, e2 = None, e
                    if not isinstance(e2, RuntimeError):
                        raise Bad("no-runtime-error", "%s: second next() while the first future is uncomputed: expected "
                                  "RuntimeError, got %s" % (where, _show(f2, e2)), feats)
                    if fut.is_computed():
                        raise Bad("harness", "%s: the refused next() computed the pending future" % where, feats)
                    dangling = fut
                    m.pending = True
                else:
                    _judge_value(m, fut, where, feats, END, R)
            elif op == "cp":
                feats = ["consumer:next", "op:cp"]
                if m.pending:
                    m.pending = False
                    fut, dangling = dangling, None
                    _judge_value(m, fut, where, feats, END, R)
            else:
                raise ValueError(op)
            seen.add(m.key())
        # a task handed out as a Value's payload is the consumer's to run: nobody ran it here
        for i, obj in R.payloads.items():
            if prims[i][0] == "F" and obj.is_computed():
                raise Bad("payload-computed", "history %s on body %s: the task wrapped by step %d was computed by the "
                          "generator machinery" % (ops, term_str(term), i), ["consumer:body"])
        # awaits inside the body received what they awaited
        lasti = -1
        for i, val in R.got:
            if i <= lasti or prims[i][0] in VALUE_KINDS or not same(val, expected_await(prims[i][0], i), R):
                raise Bad("await-value", "history %s on body %s: await at step %d received %r (log %r)"
                          % (ops, term_str(term), i, val, R.got), ["consumer:body"])
            lasti = i
    except Bad as b:
        return (b.sig, b.msg, b.feats)
    finally:
        if stats is not None:
            stats["seen"].update(seen)
            stats["transitions"] += len(ops)
    return None


def _show(res, exc):
    return ("exception %r" % (exc,)) if exc is not None else ("result %r" % (res,))


def _expect_stop(gen, where, feats):
    try:
        f = next(gen)
    except StopIteration:
        return
    except RuntimeError as e:
        raise Bad("stop-iteration-not-sticky", "%s: exhausted generator advanced again: RuntimeError %r" % (where, e),
                  feats + ["state:exhausted"])
    raise Bad("stop-iteration-not-sticky", "%s: exhausted generator advanced again returned %r instead of raising "
              "StopIteration" % (where, f), feats + ["state:exhausted"])


def _judge_value(m, fut, where, feats, END, R):
    try:
        v = fut.value()
    except Exception as e:
        raise Bad("unexpected-exception", "%s: computing the future returned by next() raised %r" % (where, e), feats)
    ok, exp, _ = m.advance()
    if ok:
        if v is END:
            raise Bad("next-value", "%s: got END_OF_GENERATOR although Value %r remains" % (where, exp), feats)
        if not same(v, exp, R):
            raise Bad("next-value", "%s: got %r, expected the next Value %r" % (where, v, exp), feats)
    elif v is not END:
        raise Bad("next-value", "%s: got %r but no Value remains (expected END_OF_GENERATOR)" % (where, v), feats)


# --------------------------------------------------------------------------------------------------
# jobs


def single_histories(term):
    n = len(flatten(term))
    yield ["ls"]
    for k in range(0, n + 2):
        yield ["tf%d" % k, "ls"]


def jobs(tier, seed):
    b = BOUNDS[tier]
    nested = list(nested_terms(b["Ln"], b["Lnx"]))
    nested_chunks = list(_chunks(len(nested), 40))
    for L in range(0, b["L"] + 1):
        total = 4 ** L
        for lo, hi in _chunks(total, 128):
            yield {"fam": "single", "L": L, "lo": lo, "hi": hi}
        H = b["H"] if L <= b["Lhist"] else b["H2"]
        per = max(1, 2400 // (len(OPS) ** H))
        for lo, hi in _chunks(total, per):
            yield {"fam": "hist", "L": L, "lo": lo, "hi": hi, "H": H}
        if 1 <= L <= b["Lx"]:
            # bodies over the extended alphabet with at least one extended step (the workers skip the core-only ones)
            total = len(ALPHA_EXT) ** L
            for lo, hi in _chunks(total, 160):
                yield {"fam": "single", "L": L, "lo": lo, "hi": hi, "ext": True}
            H = b["Hx"] if L <= b["Lxh"] else b["Hx2"]
            per = max(1, 3000 // (len(OPS) ** H))
            for lo, hi in _chunks(total, per):
                yield {"fam": "hist", "L": L, "lo": lo, "hi": hi, "H": H, "ext": True}
        if L == 1:
            for lo, hi in nested_chunks:
                yield {"fam": "nested", "Ln": b["Ln"], "Lnx": b["Lnx"], "lo": lo, "hi": hi, "H": b["Hn"]}


def _chunks(total, per):
    lo = 0
    while lo < total:
        yield lo, min(total, lo + per)
        lo += per


def worker_init(env):
    from .. import diag
    diag.worker_init(env)


def _nontrivial(term):
    kinds = set(p[0] for p in flatten(term))
    return bool(kinds & set(VALUE_KINDS)) and bool(kinds - set(VALUE_KINDS))


def run(job, env):
    from .. import diag
    hb = env["hb"]
    res = diag.new_result()
    fam = job["fam"]
    if fam == "nested":
        terms = list(nested_terms(job["Ln"], job.get("Lnx", 0)))[job["lo"]:job["hi"]]
    elif job.get("ext"):
        terms = [term_of_index(job["L"], i, ALPHA_EXT) for i in range(job["lo"], job["hi"])]
        terms = [t for t in terms if not is_core(t)]
    else:
        terms = [term_of_index(job["L"], i) for i in range(job["lo"], job["hi"])]
    stats = {"seen": set(), "transitions": 0}
    nstates = 0
    idx = 0
    for term in terms:
        nstates += len(stats["seen"])  # distinct reference states (cursor, exhausted, pending) reached per body
        stats["seen"] = set()
        nt = _nontrivial(term)
        diag.bump(res, "bodies:" + fam + (":ext" if job.get("ext") else ""))
        if fam == "single":
            cases = [(h, c) for h in single_histories(term) for c in ("call", "task")]
        elif fam == "hist":
            cases = [(list(h), "call") for h in itertools.product(OPS, repeat=job["H"])]
        else:
            cases = [(h, c) for h in single_histories(term) for c in ("call", "task")]
            cases += [(list(h), "call") for h in itertools.product(OPS, repeat=job["H"])]
        for ops, conv in cases:
            idx += 1
            if idx & 0xFF == 0:
                hb[0] = time.time()
                hb[2] = idx
            v = run_history(term, ops, conv, stats)
            res["evals"] += 1
            if nt:
                res["nontrivial"] += 1
            if v is not None:
                diag.bump(res, "viol:" + v[0])
                if len(res["violations"]) < MAX_VIOL_PER_JOB:
                    res["violations"].append({
                        "sig": v[0], "msg": v[1],
                        "features": sorted(set(v[2] + ["family:" + fam] + (["nested"] if fam == "nested" else []))),
                        "case": {"term": term, "ops": ops, "conv": conv}})
        if len(res["samples"]) < 1 and nt:
            res["samples"].append({"body": term_str(term), "family": fam, "cases": len(cases)})
    res["states"] = nstates + len(stats["seen"])
    res["transitions"] = stats["transitions"]
    diag.bump(res, "histories:" + fam + (":ext" if job.get("ext") else ""), res["evals"])
    return res


def replay(case, env):
    v = run_history(case["term"], case["ops"], case.get("conv", "call"))
    if v is None:
        return []
    return [{"sig": v[0], "msg": v[1], "features": v[2], "case": case}]


def finish(acc, tier):
    b = BOUNDS[tier]
    return {"bounds": {"body length": b["L"], "step alphabet": list(ALPHA),
                       "history length": (str(b["H"]) if b["Lhist"] >= b["L"] else
                                          "%d for bodies up to length %d, %d for longer bodies" % (b["H"], b["Lhist"], b["H2"])),
                       "history operations": OPS, "take_first n (single family)": "0..len+1",
                       "nested inner length": b["Ln"], "nested history length": b["Hn"],
                       "bodies (plain)": sum(4 ** L for L in range(b["L"] + 1)),
                       "extended alphabet": list(ALPHA_EXT), "extended body length": b["Lx"],
                       "extended history length": "%d up to body length %d, %d for longer bodies"
                                                  % (b["Hx"], b["Lxh"], b["Hx2"]),
                       "bodies (extended, not core-only)": sum(10 ** L - 4 ** L for L in range(b["Lx"] + 1)),
                       "bodies (nested)": len(list(nested_terms(b["Ln"], b["Lnx"])))}}
