"""C18 - diagnostics are faithful and total: glued tracebacks, asynq stack, filter_traceback, format_error, str/repr/dump.

Four exhaustive families (PRODX), all on the real implementation:

 tb      (a) chains of generated @asynq functions (own name and source lines per level, linecache-registered pseudo
             file) of every depth d <= D: every subset of levels that first block on a batch item x raise at every
             level and every statement position x {no handler, catch-and-re-raise, catch + await + re-raise,
             catch-and-raise-other} at every level above the raise.  Oracle: the frames of the escaping exception's
             __traceback__ that belong to generated code are exactly one per task level in call order, the last one
             being the raising frame at the raise statement (for catch-and-raise-other: levels 0..catching level,
             ending at the `raise OtherError` statement).
             Every chain's outcome is delivered SIX times through generated caller functions: first read of the root
             task via RD_A (task.value()), the failed task read again via RD_A, via another caller RD_B, via task()
             (RD_CALL), via RD_A once more, and the root function called again synchronously (RD_F).  Each delivery
             must show exactly [that caller] + one frame per level: nothing left over from earlier deliveries, and
             re-reads raise the same exception object.
 stack   (b) format_asynq_stack() recorded at every statement position of every level of such chains (other levels
             plain), and before/after every await of every node of a 7-node binary tree under every combination of
             blocking / list-vs-tuple yield.  Oracle: one entry per task level, outermost first, entry i naming the
             function of level i; None outside any task.
 handoff (b) the same probes in hand-off chains: every link level k -> k+1 is one of {a: created and awaited by level k,
             w: created by level k, awaited by a helper task while level k stays suspended, m: created by a maker task
             that has FINISHED when the child runs, u: created by level k which returns it un-awaited and has FINISHED
             when its awaiter (parent level / helper / harness) runs it} - every assignment of link kinds x every
             blocking subset x every probe position (also inside the helper tasks); and hand-off trees (every inner
             node awaits / hands to a helper / returns un-awaited its children x every blocking subset).  Oracle: the
             CREATING chain (not the awaiting chain), outermost first, finished creators included.
 filter  (c) filter_traceback on EVERY list of <= N lines over 12 lines: one representative per distinct pattern string
             used by filter_traceback (11; several are substrings of others) + one foreign line.  Oracle: re-parse of
             the output against the input per the statement (reference written from the spec, not from the code).
 state   (d) object kind x lifecycle state x operation (str, repr, %-/format, dump(), dump(indent), debug.str,
             debug.repr) over mc.diag.states(), under default options and with every DUMP_* option on; and
 ferr        format_error / dump_error / the logging formatter / format_tb on every error kind x traceback argument x
             (syntax highlighting, filtering) setting.  Oracle: nothing raises (format_error(None) is None).
"""
import itertools
import re
import time

ID = "C18"
ENGINE = "PRODX"
BUILDS = ("pure", "compiled")
RULE = ("(a) every chain of generated @asynq tasks of depth <= 6 (quick) / 10 (thorough): blocking subset x raise level x "
        "statement position x handler kind and level, each outcome delivered 6 times (first read, failed task read again "
        "from the same caller / another caller / via task() / once more, root function called again) with the same frame "
        "oracle per delivery (no frames accumulated from earlier deliveries); (b) format_asynq_stack at every position of every level of such "
        "chains and in every node of a 7-node tree under all 1024 blocking/yield-shape configurations, and in hand-off "
        "chains where each link is created-and-awaited / created here but awaited by a helper task (creator suspended) / "
        "created by a maker task that has finished / returned un-awaited by a creator that has finished: every link "
        "assignment x blocking subset x probe position (incl. helper tasks) up to depth 4 (quick) / 5 (thorough), "
        "innermost-level and helper probes only at depth 5 (quick) / 6 (thorough), plus 26 x 128 hand-off trees - the "
        "oracle is the creating chain, finished creators included; (c) every list of "
        "<= 7 (quick) / <= 8 (thorough) lines over the 12-line alphabet (11 distinct boilerplate pattern strings + "
        "foreign), thorough additionally every 9-line list over the 8 lines relevant to the 8-line pattern; (d) every "
        "(object kind, lifecycle state, operation) cell of the state registry under 2 option sets and every "
        "(error kind, traceback argument, highlighting/filter setting, entry point) cell of format_error. non-trivial = "
        "chains with at least two levels, lists containing a complete or partial boilerplate run, states other than "
        "'freshly constructed'")
EXPLANATION = ("exhaustive finite products on the real code: generated task chains vs expected frame lists, filter_traceback "
               "vs a re-parse oracle written from the statement, and an object-kind x state x operation totality matrix")
TECHNIQUE = "bounded exhaustive input/configuration enumeration against reference oracles"
ASSUMPTIONS = [
    "a frame 'belongs to a task level' iff its code object was compiled from the generated pseudo file; asynq's own and "
    "the harness' frames are ignored (the statement counts task levels only)",
    "catch-and-re-raise uses a bare `raise` (an explicit `raise e` adds a second entry for the same frame in plain "
    "Python as well)",
    "an asynq-stack entry 'lists' a task iff it contains the task function's name as a word; for a task whose function "
    "is not a generator (no yield) any string entry is accepted (asynq shows the frame of its own wrapper generator there)",
    "asynq/debug.py is not compiled: family (c) is divided between the workers of the two builds (identical file), "
    "finish() verifies that every list was run exactly once; all other families run on both builds",
    "states that exist only between two C-level statements (a task whose generator is closed but whose value is not yet "
    "set) are not reachable from Python and are not in the registry",
    "non-exception objects are passed to format_error only without a traceback (the statement speaks of exceptions)",
]

BOUNDS = {
    # DH: hand-off chains with every probe position up to this depth; DH + 1: innermost-level and helper probes only
    "quick": {"D": 6, "N": 7, "N9": False, "DH": 4},
    "thorough": {"D": 10, "N": 8, "N9": True, "DH": 5},
}
MAX_VIOL_PER_JOB = 10

# --------------------------------------------------------------------------------------------------
# (c) the filter_traceback alphabet and the reference

# pattern strings used by debug.filter_traceback (the data of the spec), per marker
GROUPS = [
    ("  ___asynq_continue___\n", [
        "asynq.async_task.AsyncTask._continue",
        "asynq.async_task.AsyncTask._continue_on_generator",
        "asynq.async_task.AsyncTask._continue_on_generator",
    ]),
    ("  ___asynq_future_raise_if_error___\n", [
        "asynq.decorators.AsyncDecorator.__call__",
        "asynq.futures.FutureBase.value",
        "asynq.futures.FutureBase.value",
        "asynq.futures.FutureBase.raise_if_error",
        "reraise",
        "six.reraise",
        "reraise",
        "value",
    ]),
    ("  ___asynq_call_pure___\n", [
        "asynq.decorators.AsyncDecorator.asynq",
        "asynq.decorators.AsyncProxyDecorator._call_pure",
        "asynq.decorators.AsyncProxyDecorator._call_pure",
        "asynq.decorators.AsyncProxyDecorator._call_pure",
        "asynq.decorators.async_call",
    ]),
]
# one representative line per distinct pattern string (taken from the examples in debug.py) + a foreign line
LINES = [
    '  File "asynq/async_task.py", line 169, in asynq.async_task.AsyncTask._continue\n',               # 0
    '  File "asynq/async_task.py", line 237, in asynq.async_task.AsyncTask._continue_on_generator\n',  # 1 (contains 0's)
    '  File "asynq/decorators.py", line 161, in asynq.decorators.AsyncDecorator.__call__\n',           # 2
    '  File "asynq/futures.py", line 54, in asynq.futures.FutureBase.value\n',                         # 3 (contains "value")
    '  File "asynq/futures.py", line 153, in asynq.futures.FutureBase.raise_if_error\n',               # 4
    '  File "<...>/python3.6/site-packages/qcore/errors.py", line 93, in reraise\n',                   # 5 "reraise"
    '    six.reraise(type(error), error, error._traceback)\n',                                         # 6 "six.reraise" (+ "reraise")
    '    raise value\n',                                                                               # 7 "value"
    '  File "asynq/decorators.py", line 153, in asynq.decorators.AsyncDecorator.asynq\n',              # 8
    '  File "asynq/decorators.py", line 203, in asynq.decorators.AsyncProxyDecorator._call_pure\n',    # 9
    '  File "asynq/decorators.py", line 275, in asynq.decorators.async_call\n',                        # 10
    '  File "app/views.py", line 12, in handler\n',                                                    # 11 foreign
]
NSYM = len(LINES)
SUB9 = [2, 3, 4, 5, 6, 7, 0, 11]  # the lines of the 8-line pattern + a line of another pattern + foreign
MARKERS = dict((m, (m, pats)) for m, pats in GROUPS)
# MATCH[g][j] = set of symbols whose line contains pattern j of group g   (substring = the spec's notion of matching)
MATCH = [[frozenset(s for s in range(NSYM) if p in LINES[s]) for p in pats] for _, pats in GROUPS]


def signature_vectors():
    pats = sorted(set(p for _, ps in GROUPS for p in ps))
    return [tuple(p in ln for p in pats) for ln in LINES]


assert len(set(signature_vectors())) == NSYM, "two alphabet lines are equivalent for the matcher"
assert len(set(p for _, ps in GROUPS for p in ps)) == NSYM - 1


def complete_run_at(idxs, i):
    """-> group index of a complete run starting at i, or -1"""
    n = len(idxs)
    s0 = idxs[i]
    for g in range(3):
        mg = MATCH[g]
        if s0 in mg[0]:
            L = len(mg)
            if i + L <= n:
                j = 1
                while j < L and idxs[i + j] in mg[j]:
                    j += 1
                if j == L:
                    return g
    return -1


def expected_output(idxs):
    out = []
    i = 0
    n = len(idxs)
    while i < n:
        g = complete_run_at(idxs, i)
        if g >= 0:
            out.append(GROUPS[g][0])
            i += len(GROUPS[g][1])
        else:
            out.append(LINES[idxs[i]])
            i += 1
    return out


def reparse(inp, out):
    """the statement as a checker: -> None or (sig, msg).  inp/out are lists of strings."""
    n = len(inp)
    i = 0
    if out.__class__ is not list:
        return "filter-output", "returned %r" % (out,)
    for k, o in enumerate(out):
        if o in MARKERS and not (i < n and inp[i] == o):
            pats = MARKERS[o][1]
            L = len(pats)
            j = 0
            while j < L and i + j < n and pats[j] in inp[i + j]:
                j += 1
            if j < L:
                if i + j >= n:
                    return ("partial-run-collapsed", "output line %d is the marker %r but the input ends after %d of the %d "
                            "lines of its pattern (input position %d)" % (k, o.strip(), j, L, i))
                return ("partial-run-collapsed", "output line %d is the marker %r but only %d of the %d lines of its pattern "
                        "match at input position %d" % (k, o.strip(), j, L, i))
            i += L
        else:
            if i >= n:
                return "line-invented", "output line %d (%r) has no input line left" % (k, o)
            if o != inp[i]:
                return "line-altered", "output line %d is %r, the next input line (%d) is %r" % (k, o, i, inp[i])
            for m, pats in GROUPS:
                L = len(pats)
                if i + L <= n and all(pats[j] in inp[i + j] for j in range(L)):
                    return ("complete-run-left", "a complete run of %r starts at input position %d but the line was copied"
                            % (m.strip(), i))
            i += 1
    if i != n:
        return "lines-lost", "output ends after consuming %d of %d input lines" % (i, n)
    return None


def _filter_nontrivial(idxs):
    for i in range(len(idxs)):
        s = idxs[i]
        for g in range(3):
            if s in MATCH[g][0]:
                return True
    return False


def run_filter(job, env, res):
    from .. import diag
    import asynq.debug as adebug
    ft = adebug.filter_traceback
    hb = env["hb"]
    alpha = job.get("alpha") or list(range(NSYM))
    prefix = tuple(job["prefix"])
    rest = job["n"] - len(prefix)
    pl = [LINES[i] for i in prefix]
    cnt = 0
    nt = 0
    first_syms = frozenset().union(*[MATCH[g][0] for g in range(3)])
    pre_nt = any(s in first_syms for s in prefix)
    for suf in itertools.product(alpha, repeat=rest):
        cnt += 1
        if cnt & 0x3FF == 0:
            hb[0] = time.time()
            hb[2] = cnt
        idxs = prefix + suf
        inp = pl + [LINES[i] for i in suf]
        out = ft(inp)
        if pre_nt or not first_syms.isdisjoint(suf):
            nt += 1
        if out != expected_output(idxs):
            v = reparse([LINES[i] for i in idxs], out)
            if v is None and len(inp) != len(idxs):
                v = ("input-mutated", "filter_traceback changed its argument")
            if v is not None:
                diag.bump(res, "viol:" + v[0])
                if len(res["violations"]) < MAX_VIOL_PER_JOB:
                    res["violations"].append({
                        "sig": v[0], "msg": "filter_traceback(%r): %s; output %r" % (list(idxs), v[1], out),
                        "features": ["family:filter", "len:%d" % len(idxs)],
                        "case": {"fam": "filter", "idxs": list(idxs)}})
    res["evals"] += cnt
    res["states"] += cnt
    res["transitions"] += cnt
    res["nontrivial"] += nt
    diag.bump(res, "filter_lists", cnt)
    diag.bump(res, "filter_lists_len%d%s" % (job["n"], "_sub" if job.get("alpha") else ""), cnt)


def replay_filter(case):
    import asynq.debug as adebug
    idxs = case["idxs"]
    inp = [LINES[i] for i in idxs]
    out = adebug.filter_traceback(list(inp))
    v = reparse(inp, out)
    if v is None:
        return []
    return [{"sig": v[0], "msg": "filter_traceback(%r): %s; output %r" % (idxs, v[1], out),
             "features": ["family:filter", "len:%d" % len(idxs)], "case": case}]


def filter_total(tier):
    b = BOUNDS[tier]
    t = sum(NSYM ** n for n in range(0, b["N"] + 1))
    if b["N9"]:
        t += len(SUB9) ** 9
    return t


# --------------------------------------------------------------------------------------------------
# (a)/(b) chains

_cm = {}


def chain_module(depth):
    from .. import diag
    cm = _cm.get(depth)
    if cm is None:
        cm = _cm[depth] = diag.ChainModule(depth)
    return cm


def tb_cases(d, blocks):
    """names of the level functions for every (raise level, position, handler) of one blocking assignment"""
    from ..diag import fn_name, chain_positions
    for r in range(d):
        leaf_r = r == d - 1
        for j in range(chain_positions(leaf_r, blocks[r])):
            handlers = [None] + [(kind, c) for c in range(r) for kind in ("cr", "cb", "co")]
            for h in handlers:
                names = []
                for k in range(d):
                    leaf = k == d - 1
                    if k == r:
                        role = "r%d" % j
                    elif h is not None and k == h[1]:
                        role = h[0]
                    else:
                        role = "p"
                    names.append(fn_name(k, leaf, blocks[k], role))
                yield names


def stack_cases(d, blocks):
    from ..diag import fn_name, chain_positions
    for k in range(d):
        leaf_k = k == d - 1
        for j in range(chain_positions(leaf_k, blocks[k])):
            yield [fn_name(i, i == d - 1, blocks[i], ("q%d" % j) if i == k else "p") for i in range(d)]


def _names_word(entry, name):
    return re.search(r"(?<![A-Za-z0-9_])%s(?![A-Za-z0-9_])" % re.escape(name), entry) is not None


def judge_chain(names):
    """runs one chain; -> list of (sig, msg, features)"""
    from .. import diag
    d = len(names)
    cm = chain_module(d)
    infos = [cm.info[n] for n in names]
    r = c = probe = None
    for k, inf in enumerate(infos):
        if inf["role"][0] == "r":
            r = k
        elif inf["role"] in ("cr", "cb", "co"):
            c = k
        elif inf["role"][0] == "q":
            probe = k
    feats = ["depth:%d" % d, "blocking:%d" % sum(1 for i in infos if i["blk"] == "b")]
    out = []
    if probe is not None:
        val, exc, frames, stacks = cm.run_chain(names)
        feats = ["family:stack", "level:%d" % probe] + feats
        if exc is not None:
            return [("harness", "probe chain %s raised %r" % (names, exc), feats)]
        if len(stacks) != 1:
            return [("harness", "probe chain %s recorded %d stacks" % (names, len(stacks)), feats)]
        st = stacks[0]
        if st.__class__ is not list or len(st) != probe + 1:
            return [("asynq-stack", "format_asynq_stack() inside level %d of %s returned %d entries, expected %d: %r"
                     % (probe, names, len(st) if st is not None else -1, probe + 1, st), feats)]
        for i in range(probe + 1):
            if infos[i]["leaf"] and infos[i]["blk"] == "d":
                # a level function without any yield is not a generator: asynq runs it inside its own wrapper generator
                # and the entry shows that wrapper's frame.  The statement only asks for one entry per task: not judged.
                if isinstance(st[i], str):
                    continue
            if not isinstance(st[i], str) or not _names_word(st[i], names[i]):
                return [("asynq-stack", "format_asynq_stack() inside level %d of %s: entry %d does not name %s: %r"
                         % (probe, names, i, names[i], st), feats)]
        return out
    feats = ["family:traceback", "raise-level:%d" % r, "handler:%s" % (infos[c]["role"] if c is not None else "none")] + feats
    if c is not None and infos[c]["role"] == "co":
        exp_names = names[:c + 1]
        exp_line = infos[c]["other_line"]
        exp_type = diag.OtherError
    else:
        exp_names = names[:r + 1]
        exp_line = infos[r]["raise_line"]
        exp_type = diag.ChainError
    first_exc = None
    for di, (rd, val, exc, frames) in enumerate(cm.run_deliveries(names)):
        fresh = rd == "RD_F"
        what = ("delivery %d (%s)" % (di + 1, "the root function called again" if fresh else
                                       "first read of the root task" if di == 0 else "the failed root task read again")
                + " through %s" % rd)
        dfeats = feats + ["delivery:%s" % ("first" if di == 0 else "fresh-call" if fresh else "repeat"), "reader:" + rd]
        if exc is None:
            return [("harness", "chain %s, %s returned %r instead of raising" % (names, what, val), dfeats)]
        if type(exc) is not exp_type:
            return [("harness", "chain %s, %s raised %r, expected %s" % (names, what, exc, exp_type.__name__), dfeats)]
        if di == 0:
            first_exc = exc
        elif not fresh and exc is not first_exc:
            return [("traceback-frames", "chain %s, %s raised another exception object %r than the first delivery"
                     % (names, what, exc), dfeats + ["why:other-object"])]
        got = [f[0] for f in frames]
        want = [rd] + exp_names
        if got != want:
            if any(n not in got for n in want):
                why = "missing-level"
            elif any(g in diag.ChainModule.READERS for g in got[1:]) or got.count(rd) > 1:
                why = "frames-of-earlier-delivery"
            elif len(got) > len(want):
                why = "extra-frame"
            else:
                why = "order"
            return [("traceback-frames", "chain %s, %s: generated-code frames of the traceback are %r, expected the caller "
                     "and one per level: %r" % (names, what, frames, want), dfeats + ["why:" + why])]
        if frames[-1][1] != exp_line:
            return [("traceback-raise-line", "chain %s, %s: innermost frame is at line %d, the raise statement is at line %d"
                     % (names, what, frames[-1][1], exp_line), dfeats)]
    return out


def handoff_cases(d, links, blocks, innermost_only):
    """(names, helper probe) for every probe of one hand-off chain: links[k] in 'awmu' for k < d-1"""
    from ..diag import fn_name, hfn_name, chain_positions, handoff_positions

    def names_for(pk, pj):
        out = []
        for i in range(d):
            role = ("q%d" % pj) if i == pk else "p"
            if i == d - 1:
                out.append(fn_name(i, True, blocks[i], role))
            else:
                out.append(hfn_name(i, blocks[i], links[i], role))
        return out

    for k in range(d):
        if innermost_only and k != d - 1:
            continue
        n = chain_positions(True, blocks[k]) if k == d - 1 else handoff_positions(blocks[k], links[k])
        for j in range(n):
            yield names_for(k, j), None
    plain = names_for(-1, 0)
    for k in range(d - 1):
        if links[k] == "w":
            yield plain, ["W", k]
        elif links[k] == "m":
            yield plain, ["M", k]


def creating_chain(names, infos, upto):
    out = []
    for i in range(upto + 1):
        out.append(names[i])
        if i < upto and infos[i].get("link") == "m":
            out.append("M%d" % i)
    return out


def judge_handoff(names, hprobe):
    d = len(names)
    cm = chain_module(d)
    infos = [cm.info[n] for n in names]
    if hprobe:
        kind, k = hprobe[0], int(hprobe[1])
        exp = creating_chain(names, infos, k) + ["%s%d" % (kind, k)]
        where = "helper %s%d" % (kind, k)
        level = k
    else:
        level = [i for i, inf in enumerate(infos) if inf["role"][0] == "q"][0]
        exp = creating_chain(names, infos, level)
        where = "level %d" % level
    links = "".join(inf.get("link", "") for inf in infos)
    finished = sum(1 for i, inf in enumerate(infos[:level]) if inf.get("link") in ("m", "u"))
    feats = ["family:stack", "handoff", "depth:%d" % d, "level:%d" % level, "links:" + links,
             "finished-creators:%d" % finished]
    val, exc, frames, stacks = cm.run_chain(names, hprobe)
    if exc is not None:
        return [("harness", "hand-off chain %s raised %r" % (names, exc), feats)]
    if len(stacks) != 1:
        return [("harness", "hand-off chain %s (probe %s) recorded %d stacks" % (names, where, len(stacks)), feats)]
    st = stacks[0]
    if st.__class__ is not list or len(st) != len(exp):
        return [("asynq-stack", "format_asynq_stack() inside %s of hand-off chain %s returned %d entries, expected the "
                 "creating chain %r: %r" % (where, names, len(st) if st is not None else -1, exp, st), feats)]
    for i, fn in enumerate(exp):
        if not isinstance(st[i], str):
            return [("asynq-stack", "hand-off chain %s: entry %d is %r" % (names, i, st[i]), feats)]
        inf = cm.info[fn]
        if not inf.get("generator", not (inf["leaf"] and inf["blk"] == "d")):
            continue  # function without yield: asynq shows its own wrapper generator's frame (see judge_chain)
        if not _names_word(st[i], fn):
            return [("asynq-stack", "format_asynq_stack() inside %s of hand-off chain %s: entry %d does not name %s "
                     "(creating chain %r): %r" % (where, names, i, fn, exp, st), feats)]
    return []


def htree_configs():
    """hand-off trees: every inner node awaits (0) / hands to a helper (1) / returns un-awaited (2) its children, at least
    one node not 0; x every subset of nodes that block first"""
    from ..diag import ChainModule
    order = ChainModule.TREE_ORDER
    inner = [n for n in order if ChainModule.TREE[n]]
    for lk in itertools.product((0, 1, 2), repeat=len(inner)):
        if not any(lk):
            continue
        for bits in itertools.product((0, 1), repeat=len(order)):
            yield dict(zip(order, bits)), dict(zip(inner, lk))


TREE_CFG_BITS = None


def tree_configs():
    """every node: bit0 = block first; inner nodes: bit1 = yield a tuple instead of a list"""
    from ..diag import ChainModule
    order = ChainModule.TREE_ORDER
    doms = [(0, 1, 2, 3) if ChainModule.TREE[n] else (0, 1) for n in order]
    for combo in itertools.product(*doms):
        yield dict(zip(order, combo))


def judge_tree(cfg, link=None):
    cm = chain_module(1)
    link = link or {}
    blk = cfg
    feats = ["family:stack", "tree"] + (["handoff"] if link else [])
    if link:
        cfg = (blk, link)  # for the messages
    try:
        stacks = cm.run_tree(blk, link)
    except Exception as e:
        return [("harness", "tree %r raised %r" % (cfg, e), feats)], 0
    exp_count = sum(1 + (1 if blk[n] & 1 else 0) + (1 if cm.TREE[n] and link.get(n, 0) != 2 else 0)
                    + (1 if link.get(n, 0) == 1 else 0) for n in cm.TREE_ORDER)
    if len(stacks) != exp_count:
        return [("harness", "tree %r recorded %d stacks, expected %d" % (cfg, len(stacks), exp_count), feats)], len(stacks)
    for name, phase, st in stacks:
        if name.startswith("TW:"):
            path = cm.tree_path(name[3:]) + ["TW"]
        else:
            path = cm.tree_path(name)
        if st.__class__ is not list or len(st) != len(path):
            return [("asynq-stack", "tree %r: format_asynq_stack() in node %s (phase %d) returned %r, expected one entry per "
                     "task of %r" % (cfg, name, phase, st, path), feats + ["level:%d" % (len(path) - 1)])], len(stacks)
        for i, fn in enumerate(path):
            if not _names_word(st[i], fn):
                return [("asynq-stack", "tree %r: node %s (phase %d): entry %d does not name %s: %r"
                         % (cfg, name, phase, i, fn, st), feats + ["level:%d" % (len(path) - 1)])], len(stacks)
    return [], len(stacks)


def judge_outside():
    from .. import diag
    import asynq.debug as adebug
    diag.reset_asynq()
    r = adebug.format_asynq_stack()
    if r is not None:
        return [("asynq-stack-outside", "format_asynq_stack() outside any task returned %r" % (r,), ["family:stack", "outside"])]
    cm = chain_module(2)
    cm.run_chain(["L0n_b_p", "L1l_b_p"])
    r = adebug.format_asynq_stack()
    if r is not None:
        return [("asynq-stack-outside", "format_asynq_stack() after a computation returned %r" % (r,), ["family:stack", "outside"])]
    cm.run_chain(["L0n_b_p", "L1l_b_r1"])
    r = adebug.format_asynq_stack()
    if r is not None:
        return [("asynq-stack-outside", "format_asynq_stack() after a failed computation returned %r" % (r,),
                 ["family:stack", "outside"])]
    return []


# --------------------------------------------------------------------------------------------------
# (d) totality

OPTSETS = ["default", "all-dumps"]


def apply_optset(name):
    from .. import diag
    if name == "all-dumps":
        o = diag._dbg.options
        for n in diag._OPTION_NAMES:
            if n.startswith("DUMP_"):
                setattr(o, n, True)
        o.SCHEDULER_STATE_DUMP_INTERVAL = 0


def op_sig(op):
    if op in ("dump", "dump_indent"):
        return "dump-raises"
    if op == "run-with-perf-stats":
        return "perf-stats-repr-raises"
    return "repr-raises"


def run_cell(kind, state, op, optset):
    """-> ('ok'|'n/a'|'viol', violation or None)"""
    from .. import diag
    ent = None
    for k, s, drv, ops in diag.states():
        if k == kind and s == state:
            ent = (drv, ops)
            break
    if ent is None:
        raise KeyError((kind, state))
    return _run_cell(kind, state, ent[0], op, optset)


def _run_cell(kind, state, drv, op, optset):
    from .. import diag
    diag.reset_asynq()
    apply_optset(optset)
    P = diag.Probe(op)
    derr = None
    try:
        drv(P)
    except BaseException as e:  # noqa
        if isinstance(e, (KeyboardInterrupt, SystemExit, MemoryError)):
            raise
        derr = e
    finally:
        diag.reset_asynq()
    feats = ["family:state", "kind:" + kind, "state:" + state, "op:" + op, "opts:" + optset]
    case = {"fam": "state", "kind": kind, "state": state, "op": op, "optset": optset}
    if P.error is not None:
        # the object kind is part of the sig so that a listed finding for one kind cannot hide another kind in the report
        return "viol", {"sig": "%s:%s" % (op_sig(op), kind), "msg": "%s in state '%s': %s raised %r (options: %s)"
                        % (kind, state, op, P.error, optset), "features": feats, "case": case}
    if derr is not None:
        sig = "implicit-diagnostic-raises" if optset != "default" else "harness"
        return "viol", {"sig": sig, "msg": "driving %s into state '%s' failed with %r (options: %s)"
                        % (kind, state, derr, optset), "features": feats, "case": case}
    if P.calls != 1:
        return "viol", {"sig": "harness", "msg": "%s state '%s' was not reached (probe called %d times)"
                        % (kind, state, P.calls), "features": feats, "case": case}
    if not P.applicable:
        return "n/a", None
    return "ok", None


def run_fe_cell(name, tbkind, flags, op):
    from .. import diag
    r = diag.run_format_error(name, tbkind, tuple(flags), op)
    if r is None:
        return "ok", None
    if isinstance(r, str):
        return "n/a", None
    feats = ["family:format_error", "kind:" + name, "state:tb=" + tbkind, "op:" + op,
             "highlight:%s" % flags[0], "filter:%s" % flags[1]]
    return "viol", {"sig": "format_error-raises", "msg": "%s on error '%s' (traceback argument: %s, highlighting %s, filtering "
                    "%s) raised %r" % (op, name, tbkind, flags[0], flags[1], r), "features": feats,
                    "case": {"fam": "ferr", "name": name, "tb": tbkind, "flags": list(flags), "op": op}}


# --------------------------------------------------------------------------------------------------
# jobs


def jobs(tier, seed):
    b = BOUNDS[tier]
    D = b["D"]
    yield {"fam": "outside"}
    yield {"fam": "ferr"}
    # the parent cannot enumerate the registry without importing it; it only needs its size
    from .. import diag
    nstates = len(diag.states())
    for lo in range(0, nstates, 12):
        yield {"fam": "state", "lo": lo, "hi": min(nstates, lo + 12)}
    sl = [0]

    def fjob(n, prefix, alpha=None):
        j = {"fam": "filter", "n": n, "prefix": list(prefix), "slice": sl[0]}
        if alpha:
            j["alpha"] = alpha
        sl[0] += 1
        return j

    tree = list(range(0, 1024, 64))
    for step in range(1, max(D, b["N"]) + 1):
        d = step
        if d <= D:
            per = max(1, 1500 // max(1, d * d * 8))
            for lo in range(0, 2 ** d, per):
                yield {"fam": "tb", "d": d, "lo": lo, "hi": min(2 ** d, lo + per)}
            per = max(1, 3000 // (d * 5))
            for lo in range(0, 2 ** d, per):
                yield {"fam": "stack", "d": d, "lo": lo, "hi": min(2 ** d, lo + per)}
        if step == 2:
            for lo in tree:
                yield {"fam": "tree", "lo": lo, "hi": lo + 64}
            for lo in range(0, 26 * 128, 64):
                yield {"fam": "htree", "lo": lo, "hi": lo + 64}
        if 2 <= d <= b["DH"] + 1:
            inner = d > b["DH"]
            nl = 4 ** (d - 1)
            per = max(1, 2500 // ((2 ** d) * ((4 if inner else 5 * d) + d)))
            for lo in range(0, nl, per):
                yield {"fam": "handoff", "d": d, "lo": lo, "hi": min(nl, lo + per), "inner": inner}
        n = step
        if n <= b["N"]:
            if n == 1:
                yield fjob(0, ())
            plen = max(0, n - 4)
            for prefix in itertools.product(range(NSYM), repeat=plen):
                yield fjob(n, prefix)
    if b["N9"]:
        for prefix in itertools.product(SUB9, repeat=4):
            yield fjob(9, prefix, SUB9)


def worker_init(env):
    from .. import diag
    diag.worker_init(env)


def _blocks(d, idx):
    return ["b" if (idx >> k) & 1 else "d" for k in range(d)]


def _add(res, v, case):
    from .. import diag
    diag.bump(res, "viol:" + v[0])
    if len(res["violations"]) < MAX_VIOL_PER_JOB:
        res["violations"].append({"sig": v[0], "msg": v[1], "features": v[2], "case": case})


def run(job, env):
    from .. import diag
    hb = env["hb"]
    res = diag.new_result()
    fam = job["fam"]
    if fam == "filter":
        # debug.py is the same pure-Python file in both builds: even slices on the pure workers, odd on the compiled ones
        if (job["slice"] % 2 == 0) != (env["build"] == "pure"):
            diag.bump(res, "filter_jobs_run_by_other_build")
            return res
        run_filter(job, env, res)
        return res
    if fam in ("tb", "stack"):
        d = job["d"]
        n = 0
        for bi in range(job["lo"], job["hi"]):
            blocks = _blocks(d, bi)
            for names in (tb_cases(d, blocks) if fam == "tb" else stack_cases(d, blocks)):
                n += 1
                if n & 0x7F == 0:
                    hb[0] = time.time()
                    hb[2] = n
                for v in judge_chain(names):
                    _add(res, v, {"fam": "chain", "names": names})
                res["transitions"] += d * (6 if fam == "tb" else 1)
                if d >= 2:
                    res["nontrivial"] += 1
        res["evals"] += n
        res["states"] += n
        diag.bump(res, "chains:" + fam, n)
        if fam == "tb":
            diag.bump(res, "deliveries:tb", 6 * n)
        diag.bump(res, "chains:%s:depth%d" % (fam, d), n)
        if not res["samples"] and fam == "tb" and d >= 3:
            res["samples"].append({"family": fam, "chain": names})
        return res
    if fam == "handoff":
        from ..diag import LINKS
        d = job["d"]
        n = 0
        for li in range(job["lo"], job["hi"]):
            links = [LINKS[(li >> (2 * k)) & 3] for k in range(d - 1)]
            for bi in range(2 ** d):
                blocks = _blocks(d, bi)
                for names, hp in handoff_cases(d, links, blocks, job["inner"]):
                    n += 1
                    if n & 0x7F == 0:
                        hb[0] = time.time()
                        hb[2] = n
                    for v in judge_handoff(names, hp):
                        _add(res, v, {"fam": "handoff", "names": names, "hprobe": hp})
                    res["transitions"] += d
                    if any(x != "a" for x in links):
                        res["nontrivial"] += 1
        res["evals"] += n
        res["states"] += n
        diag.bump(res, "chains:handoff", n)
        diag.bump(res, "chains:handoff:depth%d%s" % (d, ":innermost+helpers" if job["inner"] else ""), n)
        if not res["samples"] and d >= 3 and job["lo"] > 0:
            res["samples"].append({"family": "handoff", "chain": names, "helper probe": hp})
        return res
    if fam == "htree":
        cfgs = list(itertools.islice(htree_configs(), job["lo"], job["hi"]))
        for blk, link in cfgs:
            hb[0] = time.time()
            vs, nprobes = judge_tree(blk, link)
            for v in vs:
                _add(res, v, {"fam": "htree", "cfg": blk, "link": link})
            res["evals"] += 1
            res["states"] += 1
            res["transitions"] += nprobes
            res["nontrivial"] += 1
        diag.bump(res, "handoff_tree_configs", len(cfgs))
        return res
    if fam == "tree":
        cfgs = list(tree_configs())[job["lo"]:job["hi"]]
        for cfg in cfgs:
            hb[0] = time.time()
            vs, nprobes = judge_tree(cfg)
            for v in vs:
                _add(res, v, {"fam": "tree", "cfg": cfg})
            res["evals"] += 1
            res["states"] += 1
            res["transitions"] += nprobes
            res["nontrivial"] += 1
        diag.bump(res, "tree_configs", len(cfgs))
        return res
    if fam == "outside":
        for v in judge_outside():
            _add(res, v, {"fam": "outside"})
        res["evals"] += 3
        return res
    if fam == "state":
        sts = diag.states()[job["lo"]:job["hi"]]
        for kind, state, drv, ops in sts:
            for op in ops:
                for optset in OPTSETS:
                    hb[0] = time.time()
                    verdict, v = _run_cell(kind, state, drv, op, optset)
                    if verdict == "n/a":
                        diag.bump(res, "state_cells_not_applicable")
                        continue
                    res["evals"] += 1
                    res["transitions"] += 1
                    diag.bump(res, "state_cells")
                    if state not in ("created", "uncomputed", "fresh", "plain", "default", "decorated-callable"):
                        res["nontrivial"] += 1
                    if v is not None:
                        diag.bump(res, "viol:" + v["sig"])
                        if len(res["violations"]) < 60:
                            res["violations"].append(v)
            res["states"] += 1
            res.setdefault("sets", {}).setdefault("object kinds", []).append(kind)
        if not res["samples"] and sts:
            res["samples"].append({"family": "state", "kind": sts[0][0], "state": sts[0][1], "ops": sts[0][3]})
        return res
    if fam == "ferr":
        for name, isx, mk in diag.error_makers():
            for tbk in diag.FE_TBS:
                for fl in diag.FE_FLAGS:
                    for op in diag.FE_OPS:
                        hb[0] = time.time()
                        verdict, v = run_fe_cell(name, tbk, fl, op)
                        if verdict == "n/a":
                            diag.bump(res, "format_error_cells_not_applicable")
                            continue
                        res["evals"] += 1
                        res["transitions"] += 1
                        res["nontrivial"] += 1
                        diag.bump(res, "format_error_cells")
                        if v is not None:
                            diag.bump(res, "viol:" + v["sig"])
                            if len(res["violations"]) < 40:
                                res["violations"].append(v)
            res["states"] += 1
        return res
    raise ValueError(fam)


def replay(case, env):
    fam = case["fam"]
    if fam == "filter":
        return replay_filter(case)
    if fam == "chain":
        return [{"sig": v[0], "msg": v[1], "features": v[2], "case": case} for v in judge_chain(case["names"])]
    if fam == "tree":
        return [{"sig": v[0], "msg": v[1], "features": v[2], "case": case} for v in judge_tree(case["cfg"])[0]]
    if fam == "htree":
        return [{"sig": v[0], "msg": v[1], "features": v[2], "case": case}
                for v in judge_tree(case["cfg"], case["link"])[0]]
    if fam == "handoff":
        return [{"sig": v[0], "msg": v[1], "features": v[2], "case": case}
                for v in judge_handoff(case["names"], case.get("hprobe"))]
    if fam == "outside":
        return [{"sig": v[0], "msg": v[1], "features": v[2], "case": case} for v in judge_outside()]
    if fam == "state":
        verdict, v = run_cell(case["kind"], case["state"], case["op"], case.get("optset", "default"))
        return [v] if v is not None else []
    if fam == "ferr":
        verdict, v = run_fe_cell(case["name"], case["tb"], case["flags"], case["op"])
        return [v] if v is not None else []
    raise ValueError(fam)


def finish(acc, tier):
    b = BOUNDS[tier]
    want = filter_total(tier)
    got = acc.counters.get("filter_lists", 0)
    if got != want and not acc.harness_errors:
        acc.harness_errors.append("C18 family (c): %d lists were filtered, the bound has %d (a build whose workers own "
                                  "half of the slices is missing?)" % (got, want))
    return {"bounds": {"chain depth": b["D"], "filter list length": b["N"], "filter alphabet": NSYM,
                       "filter lists": want, "9-line lists over the 8-line-pattern sub-alphabet": b["N9"],
                       "tree configurations": 1024, "hand-off tree configurations": 26 * 128,
                       "hand-off chain depth (all probes)": b["DH"],
                       "hand-off chain depth (innermost + helper probes)": b["DH"] + 1, "option sets for the state matrix": OPTSETS,
                       "operations": ["str", "repr", "format", "dump", "dump_indent", "debug.str", "debug.repr"]}}
