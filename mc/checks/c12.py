"""C12 - deduplicate: one in-flight execution per key, shared by all callers."""
from .. import gen, progx

ID = "C12"
BUILDS = ("pure", "compiled")
RULE = ("every base program up to size n in which <=k constant leaves are replaced by calls of @deduplicate() functions "
        "(two module functions, a method on two instances, a static method reached via class and via instance; keys 1/2; "
        "positional / keyword / default / mixed spelling) and dirty() statements / raise / try / shared tasks are inserted, "
        "for each deduplicated body kind (returns at once, blocks on one item, blocks on two items of different kinds, "
        "blocks then raises, synchronously re-enters itself), under every flush schedule, both builds. The call sites "
        "therefore land in the same yield, in later steps while the first call is blocked between its flushes, and after "
        "completion. Oracle R7 (in-flight map): identity of every returned task, no sharing across keys/functions/instances, "
        "no completed task left in the table. non-trivial = programs with >=2 deduplicated call sites")
EXPLANATION = "stateless DFS over flush schedules of programs containing deduplicated calls; every call compared with the in-flight-map reference R7"
ASSUMPTIONS = ["single thread (the thread component of the key is C16's subject)",
               "bodies are the five harness body kinds; keys are small integers"]
MENU = ["leaf:dd", "ins:ddirty", "ins:raise", "wrap:try", "leaf:sh", "ins:sync"]
CATS = ["dedup-identity", "dedup-cross-key", "dedup-table-residue", "resumed-uncomputed", "hang", "worker-died"]
BODIES = ["ret", "y1", "y2", "y1raise", "selfsync"]
LADDER = {"quick": [(4, 1, ["call"]), (3, 2, ["call"])],
          "thorough": [(5, 1, ["call"]), (4, 2, ["call"], {"only_bodies": ["y2"]}), (3, 2, ["call"])]}
SPEC = {"r1": False, "r2": False, "need": ["dd"]}


def jobs(tier, seed):
    for b in BODIES:
        for j in progx.ladder_jobs(LADDER[tier], MENU, CATS, SPEC):
            if "only_bodies" in j and b not in j["only_bodies"]:
                continue
            j["globals"] = [("ddbody", b)]
            yield j


worker_init = progx.worker_init


def _count(prog, r, exp, r1, spec, conv, out):
    pass


def run(job, env):
    return progx.run_spec(job, env)


def replay(case, env):
    return progx.replay_case(case, env)


def finish(acc, tier):
    return {"bounds": {"ladder": LADDER[tier], "menu": MENU, "body kinds": BODIES, "call alternatives": [list(a) for a in gen.DD_ALTS]}}
