"""C12 - deduplicate: one in-flight execution per key, shared by all callers."""
from .. import gen, progx

ID = "C12"
BUILDS = ("pure", "compiled")
RULE = ("every base program up to size n in which <=k constant leaves are replaced by calls of @deduplicate() functions "
        "(two module functions, a method on two instances, a static method reached via class and via instance; keys 1/2; "
        "positional / keyword / default / mixed spelling) and dirty() statements / raise / try / shared tasks are inserted, "
        "for each deduplicated body kind (returns at once, blocks on one item, blocks on two items of different kinds, "
        "blocks then raises, synchronously re-enters itself), under every flush schedule, both builds. The call sites "
        "therefore land in the same yield, in later steps while the first call is blocked between its flushes, and after "
        "completion. Oracle R7 (in-flight map): identity of every returned task, no sharing across keys/functions/instances, "
        "no completed task left in the table. Plus (HISTX) every history up to length 5 (quick) / 7 (thorough) over {call positional/keyword/default, call other key, dirty, dirty other key, complete the i-th task} on one deduplicated function. non-trivial = programs with >=2 deduplicated call sites")
EXPLANATION = "stateless DFS over flush schedules of programs containing deduplicated calls; every call compared with the in-flight-map reference R7"
ASSUMPTIONS = ["single thread (the thread component of the key is C16's subject)",
               "bodies are the five harness body kinds; keys are small integers"]
MENU = ["leaf:dd", "ins:ddirty", "ins:raise", "wrap:try", "leaf:sh", "ins:sync"]
CATS = ["dedup-identity", "dedup-cross-key", "dedup-table-residue", "dedup-runcount", "resumed-uncomputed", "hang", "worker-died"]
BODIES = ["ret", "y1", "y2", "y1raise", "selfsync"]
_ONE = {"menu": ["leaf:dd1"], "only_bodies": ["y2", "selfsync"]}  # two or three identical calls in larger programs
LADDER = {"quick": [(4, 1, ["call"]), (3, 2, ["call"]), (5, 2, ["call"], _ONE), (4, 3, ["call"], _ONE)],
          "thorough": [(5, 1, ["call"]), (4, 2, ["call"], {"only_bodies": ["y2"]}), (3, 2, ["call"])]}
SPEC = {"r1": False, "r2": False, "need": ["dd"]}


HIST_OPS = ["call_pos", "call_kw", "call_def", "call_other", "dirty", "dirty_other", "complete0", "complete1", "complete2"]
HIST_DEPTH = {"quick": 5, "thorough": 7}


def jobs(tier, seed):
    # operation histories on one deduplicated function, no program around it (HISTX style): every sequence over
    # HIST_OPS up to the depth bound, sliced by the first operation
    for first in range(len(HIST_OPS)):
        for second in range(len(HIST_OPS)):
            yield {"hist": [first, second], "depth": HIST_DEPTH[tier]}
    for b in BODIES:
        for j in progx.ladder_jobs(LADDER[tier], MENU, CATS, SPEC):
            if "only_bodies" in j and b not in j["only_bodies"]:
                continue
            j["globals"] = [("ddbody", b)]
            yield j


worker_init = progx.worker_init


def _count(prog, r, exp, r1, spec, conv, out):
    pass


def _run_history(ops):
    """one history on fresh real objects; returns list of (sig, msg)"""
    import asynq
    from asynq.tools import deduplicate, DeduplicateDecorator
    from asynq.batching import DebugBatchItem, _debug_batch_state
    import asynq.scheduler as sched
    sched.reset()
    DeduplicateDecorator.tasks.clear()
    _debug_batch_state.batches.clear()
    runs = []

    @deduplicate()
    @asynq.asynq()
    def f(key, mode=0):
        runs.append(key)
        n = len(runs)
        yield DebugBatchItem("c12")
        return ("v", key, n)

    tasks = []      # every task object handed out, in order of first appearance
    inflight = {}   # R7: key -> task (created and not complete, not dirtied)
    out = []
    for i, op in enumerate(ops):
        if op.startswith("call"):
            key = 2 if op == "call_other" else 1
            prev = inflight.get(key)
            live = prev is not None and not prev.is_computed()
            if op == "call_pos":
                t = f.asynq(key, 0)
            elif op == "call_kw":
                t = f.asynq(key=key, mode=0)
            else:
                t = f.asynq(key)
            if live and t is not prev:
                out.append(("dedup-identity", "history %s: call #%d for key %d returned a new task although the task created earlier for that key is still in flight (created, not complete, not dirtied)" % (ops, i, key)))
                break
            if not live and prev is not None and t is prev:
                out.append(("dedup-identity", "history %s: call #%d returned the task that had already completed" % (ops, i)))
                break
            for k2, t2 in inflight.items():
                if k2 != key and t2 is t:
                    out.append(("dedup-cross-key", "history %s: call #%d for key %d returned the task of key %d" % (ops, i, key, k2)))
            if not live:
                if any(t is x for x in tasks):
                    out.append(("dedup-identity", "history %s: call #%d returned an old task object" % (ops, i)))
                    break
                inflight[key] = t
            if not any(t is x for x in tasks):
                tasks.append(t)
        elif op == "dirty":
            f.dirty(1)
            inflight.pop(1, None)
        elif op == "dirty_other":
            f.dirty(2)
            inflight.pop(2, None)
        else:
            j = int(op[-1])
            if j < len(tasks):
                before = len(runs)
                started = tasks[j].is_computed()
                v = tasks[j].value()
                if not started and len(runs) - before > 1:
                    out.append(("dedup-runcount", "history %s: completing task %d ran the body %d times" % (ops, j, len(runs) - before)))
        for k, t in DeduplicateDecorator.tasks.items():
            if t.is_computed():
                out.append(("dedup-table-residue", "history %s: after step %d the table holds a completed task" % (ops, i)))
                break
        if out:
            break
    return out


def _hist_job(job, env):
    import itertools
    import time
    out = {"evals": 0, "states": 0, "transitions": 0, "nontrivial": 0, "violations": [], "counters": {}, "samples": []}
    head = [HIST_OPS[i] for i in job["hist"]]
    seen = set()
    for extra in range(0, job["depth"] - 1):
        for tail in itertools.product(HIST_OPS, repeat=extra):
            ops = head + list(tail)
            env["hb"][0] = time.time()
            vs = _run_history(ops)
            out["evals"] += 1
            out["states"] += 1
            out["transitions"] += len(ops)
            if sum(1 for o in ops if o.startswith("call")) >= 2:
                out["nontrivial"] += 1
            for sig, msg in vs:
                if sig not in seen:
                    seen.add(sig)
                    out["violations"].append({"sig": sig, "msg": msg, "features": ["hist"] + sorted(set(o.rstrip("012") for o in ops)),
                                              "case": {"hist_ops": ops}})
    out["counters"]["histories"] = out["evals"]
    if job["hist"] == [0, 4]:
        out["samples"].append({"history": head + ["call_pos", "complete0", "call_pos"]})
    return out


def run(job, env):
    if "hist" in job:
        return _hist_job(job, env)
    return progx.run_spec(job, env)


def replay(case, env):
    if "hist_ops" in case:
        return [{"sig": a, "msg": b} for a, b in _run_history(case["hist_ops"])]
    return progx.replay_case(case, env)


def finish(acc, tier):
    return {"bounds": {"ladder": LADDER[tier], "menu": MENU, "body kinds": BODIES, "call alternatives": [list(a) for a in gen.DD_ALTS],
                       "operation histories": {"ops": HIST_OPS, "depth": HIST_DEPTH[tier]}}}
