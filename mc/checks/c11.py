"""C11 - batch lifecycle: pending -> flushed or cancelled, once; no item left pending (HISTX, reference machine R5)."""
from .. import histx
from ..histx import HErr, HBaseErr, HFalsyErr, HFalsyBaseErr, Val, Tokens, call

ID = "C11"
ENGINE = "HISTX"
BUILDS = ("pure", "compiled")
TECHNIQUE = "explicit-state BFS over operation histories on the real objects vs reference state machine"
# the F flavours use exceptions whose truth value is False (an error must be recognised by `is not None`)
BODIES = ["all", "some", "none", "errs", "errsF", "raise", "raiseF", "raiseB", "raiseBF", "new", "selfcancel"]
DEPTH = {"quick": 5, "thorough": 7}
GENS = {"quick": 2, "thorough": 3}  # successive batches of the kind that the operations may address
MAX_ITEMS = 3  # in the first batch
MAX_FRESH = 2  # in every later batch
RULE = ("for a harness BatchBase subclass (own active-batch pointer switched in _try_switch_active_batch) with each of 11 "
        "flush-body kinds {sets all items, sets the even-numbered items, sets none, sets item errors (ordinary / with "
        "truth value False), sets item 0 then raises Exception (ordinary / falsy), sets item 0 then raises a BaseException "
        "subclass (ordinary / falsy), creates a new item of the same kind then sets all, sets item 0 then cancels itself} "
        "and for the built-in DebugBatch/DebugBatchItem: breadth-first search from 4 "
        "roots (first batch holding 0,1,2,3 items) over ALL histories up to length 5 (quick) / 7 (thorough) of the "
        "operations {add item through the active-batch pointer; and, addressed to the first batch or to the fresh batch "
        "that replaced it (quick: 2 successive batches, thorough: 3): add item directly to that batch, flush(), cancel(), "
        "cancel(e1), cancel(f1) with f1 an exception whose truth value is False, item_i.value(), item_i.error() (every i), "
        "batch.value(), batch.error(), "
        "is_flushed/is_cancelled/is_empty, str+dump}; at most 3 items in the first batch and 2 in each later one. "
        "Histories are merged only when (R5 state of every batch; and of the real objects: each batch's "
        "is_computed/_value/_error, len(items), every item's is_computed/_value/_error and notification count, flush-body "
        "run count, announcement count, which batch the active pointer designates) coincide; every executed history is "
        "followed by a probe tail on the two most recent addressable batches (queries, every item's value/error or flush() if empty, "
        "cancel, batch error/value, direct add, flush, queries) on the same live objects. Every operation is compared with the "
        "reference batch machine R5. evals = histories executed (distinct state x operation edges + roots); transitions = "
        "operations applied to real objects (replayed prefix + new operation + probe tail); non-trivial = distinct states "
        "in which some batch is finished or holds at least one item")
EXPLANATION = ("breadth-first explicit-state search over operation histories replayed on fresh real batches and items, "
               "every step compared with the plain-Python batch reference machine R5")
ASSUMPTIONS = [
    "operations are applied from outside, one after the other, on one thread, without a scheduler",
    "'no item can be added to a finished batch' is read as: the BatchItemBase constructor raises AssertionError (it is an assert)",
    "is_cancelled() after a failing flush body and is_empty() after the batch finished are not judged (statement silent)",
    "'the flush or cancellation error' means that very exception object, whatever its truth value: the falsy flavours are "
    "exception classes defining __len__ -> 0 (e.g. an aggregate error carrying an empty list of reasons)",
    "whether a batch cancelled without ever being flushed stops being the active batch is not judged (statement silent)",
    "the content of str()/dump() is not judged here (C18), only that they change nothing",
    "the built-in DebugBatch has one flush body (sets every item to its result); the first batch is a DebugBatch subclass "
    "whose _flush only counts the call and delegates to DebugBatch._flush; the later batches are the plain DebugBatch "
    "objects created by the library, whose body runs are observed through their items only",
]


def jobs(tier, seed):
    for b in BODIES:
        yield {"target": "harness", "body": b, "depth": DEPTH[tier], "gens": GENS[tier]}
    yield {"target": "debug", "body": "all", "depth": DEPTH[tier], "gens": GENS[tier]}


def workers_per_build(tier, nper):
    # 12 equally heavy jobs per build: 12 workers per build finish in one round (2 rounds with the default 8)
    return max(nper, len(BODIES) + 1)


def worker_init(env):
    from .. import progx
    progx.worker_init(env)


_H = None


def _harness():
    global _H
    if _H is not None:
        return _H
    import asynq.batching as B
    import asynq.futures

    class LB(B.BatchBase):
        """harness batch; the world owns the active-batch pointer"""

        def __init__(self, w):
            B.BatchBase.__init__(self)
            self.w = w

        def _try_switch_active_batch(self):
            w = self.w
            if w.active is self:
                w.active = LB(w)
                w.new_gen(w.active, True)

        def _flush(self):
            self.w.body(self)

    class LI(B.BatchItemBase):
        def __init__(self, batch):
            B.BatchItemBase.__init__(self, batch)

    class DI(B.DebugBatchItem):
        """a DebugBatchItem added directly to a given DebugBatch"""

        def __init__(self, batch, result):
            B.BatchItemBase.__init__(self, batch)
            self._result = result

    class CDB(B.DebugBatch):
        """the built-in DebugBatch, its flush body counted (the body itself is the built-in one)"""

        def __init__(self, w, name):
            B.DebugBatch.__init__(self, name)
            self.w = w

        def _flush(self):
            w = self.w
            g = w.gen_of(self)
            g.body_runs += 1
            g.body_active_self.append(w.current() is self)
            B.DebugBatch._flush(self)

    class NS(object):
        pass

    _H = NS()
    _H.B, _H.LB, _H.LI, _H.DI, _H.CDB = B, LB, LI, DI, CDB
    _H.none = asynq.futures._none
    return _H


# ---------------------------------------------------------------------------------------------------------------
# R5: the reference batch machine (one per successive batch of the kind)

ASSERT = ("exc", "AssertionError")
RAISING = {"raise": ("F", HErr), "raiseF": ("Ff", HFalsyErr), "raiseB": ("FB", HBaseErr), "raiseBF": ("FBf", HFalsyBaseErr)}
CANCELLED = ("exc", "BatchCancelledError")


def body_effect(target, body, g, n):
    """what one run of the flush body does to batch number g holding n pending items ->
    (batch outcome, item outcomes, set-by-body flags, how, number of items the body creates)"""
    if target == "debug":
        return ("v", None), [("v", ("r", g, i)) for i in range(n)], [True] * n, "body", 0
    V = [("v", ("iv", g, i)) for i in range(n)]
    if body == "all":
        return ("v", None), V, [True] * n, "body", 0
    if body == "some":
        return ("v", None), [V[i] if i % 2 == 0 else ("e", ASSERT) for i in range(n)], [i % 2 == 0 for i in range(n)], "body", 0
    if body == "none":
        return ("v", None), [("e", ASSERT)] * n, [False] * n, "body", 0
    if body in ("errs", "errsF"):
        return ("v", None), [("e", ("ie" if body == "errs" else "ief", g, i)) for i in range(n)], [True] * n, "body", 0
    if body in RAISING:
        f = (RAISING[body][0], g)
        return ("e", f), [V[i] if i == 0 else ("e", f) for i in range(n)], [i == 0 for i in range(n)], "failed", 0
    if body == "new":
        return ("v", None), V, [True] * n, "body", 1
    if body == "selfcancel":
        return ("e", CANCELLED), [V[i] if i == 0 else ("e", CANCELLED) for i in range(n)], [i == 0 for i in range(n)], "cancel", 0
    raise ValueError(body)


class R5(object):
    """pending -> done, exactly once"""

    def __init__(self):
        self.status = "pending"
        self.outcome = None  # ("v", None) | ("e", token)
        self.how = None  # "body" | "failed" | "cancel"
        self.items = []  # None (pending) | ("v", token) | ("e", token)
        self.by_body = []
        self.body_runs = 0
        self.announced = 0

    def key(self):
        return (self.status, self.outcome, self.how, tuple(self.items), self.body_runs, self.announced)


class Model(object):
    """the successive batches of one kind; the last one is the active, pending one"""

    def __init__(self, target, body):
        self.target, self.body = target, body
        self.gens = [R5()]

    def key(self):
        return tuple(b.key() for b in self.gens)

    def run_body(self, g):
        b = self.gens[g]
        out, items, byb, how, created = body_effect(self.target, self.body, g, len(b.items))
        # the batch stops being the active batch before its body runs: what the body creates joins a fresh batch
        nb = R5()
        self.gens.append(nb)
        for _ in range(created):
            nb.items.append(None)
            nb.by_body.append(False)
        b.status, b.outcome, b.how = "done", out, how
        b.items, b.by_body = items, byb
        b.body_runs += 1
        b.announced += 1

    def cancel(self, g, etok):
        b = self.gens[g]
        b.status, b.outcome, b.how = "done", ("e", etok), "cancel"
        b.items = [("e", etok)] * len(b.items)
        b.by_body = [False] * len(b.items)
        b.announced += 1
        self.gens.append(R5())


class Gen(object):
    """harness record of one real batch"""

    def __init__(self, batch, counted):
        self.batch = batch
        self.counted = counted  # flush-body runs are observable
        self.items = []
        self.item_log = []  # per item: [(its batch was the active batch at that moment,)]
        self.announce = []  # one snapshot of the members' is_computed() per announcement
        self.body_runs = 0
        self.body_active_self = []


def cap(g):
    return MAX_ITEMS if g == 0 else MAX_FRESH


class World(object):
    def __init__(self, root):
        target, body, n0, ngens = root
        H = _harness()
        histx.reset_asynq()
        self.H = H
        self.target, self.bodykind, self.G = target, body, ngens
        self.T = Tokens(H.none)
        self.nops = 0
        self.last = None
        self.stats = {}
        self.trouble = []
        self.gens = []
        self.errs = {"e1": self.T.reg(HErr("e1"), "e1"), "f1": self.T.reg(HFalsyErr("f1"), "f1")}
        self.name = "c11"
        if target == "harness":
            self.active = H.LB(self)
            self.new_gen(self.active, True)
        else:
            b0 = H.CDB(self, self.name)
            H.B._debug_batch_state.batches[self.name] = b0
            self.new_gen(b0, True)
        self.m = Model(target, body)
        for _ in range(n0):
            self._add(None)
            self.m.gens[0].items.append(None)
            self.m.gens[0].by_body.append(False)

    # ---- harness side -------------------------------------------------------------------------------------
    def current(self):
        if self.target == "harness":
            return self.active
        return self.H.B._debug_batch_state.batches.get(self.name)

    def new_gen(self, batch, counted):
        g = Gen(batch, counted)
        self.gens.append(g)

        def announced(fut, g=g):
            members = list(g.items)
            for it in g.batch.items:
                if not any(it is x for x in members):
                    members.append(it)
            g.announce.append(tuple(bool(it.is_computed()) for it in members))

        batch.on_computed.subscribe(announced)
        return g

    def gen_of(self, batch):
        for g in self.gens:
            if g.batch is batch:
                return g
        return None

    def sync_gens(self):
        """debug target: the library itself creates the fresh DebugBatch; start observing it"""
        cur = self.current()
        if cur is not None and self.gen_of(cur) is None:
            self.new_gen(cur, False)

    def _new_item(self, batch):
        """creates a real item; batch None = through the active-batch pointer"""
        H = self.H
        if self.target == "harness":
            return H.LI(batch if batch is not None else self.active)
        res = Val("r")
        if batch is None:
            it = H.B.DebugBatchItem(self.name, res)
        else:
            it = H.DI(batch, res)
        return it

    def _add(self, gi):
        it = self._new_item(None if gi is None else self.gens[gi].batch)
        self.sync_gens()
        g = self.gen_of(it.batch)
        if g is None:
            self.trouble.append(("harness", "a new item joined an unknown batch"))
            return it
        if self.target == "debug":
            self.T.reg(it._result, ("r", self.gens.index(g), len(g.items)))
        log = []
        g.items.append(it)
        g.item_log.append(log)
        it.on_computed.subscribe(lambda f, log=log, b=it.batch: log.append(self.current() is b))
        return it

    def body(self, b):
        g = self.gen_of(b)
        gi = self.gens.index(g)
        g.body_runs += 1
        g.body_active_self.append(self.current() is b)
        k = self.bodykind
        items = list(b.items)
        T = self.T

        def val(i):
            return T.reg(Val(("iv", gi, i)), ("iv", gi, i))

        if k == "all":
            for i, it in enumerate(items):
                it.set_value(val(i))
        elif k == "some":
            for i, it in enumerate(items):
                if i % 2 == 0:
                    it.set_value(val(i))
        elif k == "none":
            pass
        elif k == "errs":
            for i, it in enumerate(items):
                it.set_error(T.reg(HErr(("ie", gi, i)), ("ie", gi, i)))
        elif k == "errsF":
            for i, it in enumerate(items):
                it.set_error(T.reg(HFalsyErr(("ief", gi, i)), ("ief", gi, i)))
        elif k in RAISING:
            if items:
                items[0].set_value(val(0))
            tag, cls = RAISING[k]
            raise T.reg(cls((tag, gi)), (tag, gi))
        elif k == "new":
            x = self._add(None)
            if x.batch is b:
                self.trouble.append(("joined-flushing-batch", "an item created inside the flush body joined the batch being flushed"))
            elif x.batch.is_flushed():
                self.trouble.append(("joined-flushing-batch", "an item created inside the flush body joined a finished batch"))
            for i, it in enumerate(items):
                it.set_value(val(i))
        elif k == "selfcancel":
            if items:
                items[0].set_value(val(0))
            b.cancel()
        else:
            raise ValueError(k)

    # ---- observation --------------------------------------------------------------------------------------
    def _obs(self, f):
        if not f.is_computed():
            return None
        if f._error is not None:
            return ("e", self.T.tok(f._error))
        return ("v", self.T.tok(f._value))

    def canon(self):
        T = self.T
        cur = self.current()
        impl = []
        for g in self.gens:
            b = g.batch
            impl.append((bool(b.is_computed()), T.tok(b._value), T.tok(b._error), len(b.items),
                         tuple((bool(it.is_computed()), T.tok(it._value), T.tok(it._error), len(log))
                               for it, log in zip(g.items, g.item_log)),
                         g.body_runs, len(g.announce), cur is b))
        return (self.m.key(), tuple(impl))

    def nontrivial(self):
        return any(b.status == "done" or b.items for b in self.m.gens)

    def _ops_for(self, gi):
        b = self.m.gens[gi]
        n = len(b.items)
        ops = []
        if b.status == "done" or n < cap(gi):
            ops.append(("add_to", gi))
        ops += [("flush", gi), ("cancel", gi), ("cancel", gi, "e1"), ("cancel", gi, "f1")]
        for i in range(n):
            ops += [("ival", gi, i), ("ierr", gi, i)]
        ops += [("bval", gi), ("berr", gi), ("query", gi), ("strdump", gi)]
        return ops

    def menu(self):
        m = self.m
        last = len(m.gens) - 1
        ops = []
        if len(m.gens[last].items) < cap(last):
            ops.append(("add",))
        for gi in range(min(len(m.gens), self.G)):
            ops += self._ops_for(gi)
        return ops

    def tail(self):
        t = []
        hi = min(len(self.m.gens), self.G)
        # the two most recent addressable batches are probed (older ones are finished and were probed when they were recent)
        for gi in range(max(0, hi - 2), hi):
            n = len(self.m.gens[gi].items)
            # a pending batch holding items is flushed through its first item, an empty one through flush()
            t += [("query", gi)]
            t += [("ival", gi, i) for i in range(n)] + [("ierr", gi, i) for i in range(n)]
            t += [("flush", gi)] if n == 0 else []
            t += [("cancel", gi), ("berr", gi), ("bval", gi), ("add_to", gi), ("flush", gi), ("query", gi)]
        return t

    # ---- one operation, judged ----------------------------------------------------------------------------
    def _do(self, op):
        name = op[0]
        if name == "add":
            return call(self._add, None)
        g = self.gens[op[1]]
        b = g.batch
        if name == "add_to":
            return call(self._add, op[1])
        if name == "flush":
            return call(b.flush)
        if name == "cancel":
            return call(b.cancel, self.errs[op[2]]) if len(op) > 2 else call(b.cancel)
        if name == "ival":
            return call(g.items[op[2]].value)
        if name == "ierr":
            return call(g.items[op[2]].error)
        if name == "bval":
            return call(b.value)
        if name == "berr":
            return call(b.error)
        if name == "query":
            r = [call(b.is_flushed), call(b.is_cancelled), call(b.is_empty)]
            for x in r:
                if x[0] == "exc":
                    return x
            return ("ret", tuple(bool(x[1]) for x in r))
        if name == "strdump":
            r = call(str, b)
            if r[0] == "exc":
                return r
            return call(b.dump)
        raise ValueError(op)

    def _stat(self, k):
        self.stats[k] = self.stats.get(k, 0) + 1

    def apply(self, op):
        m = self.m
        T = self.T
        V = []
        name = op[0]
        last = len(m.gens) - 1
        gi = last if name == "add" else op[1]
        mb = m.gens[gi]
        was_pending = mb.status == "pending"
        before = [(len(g.announce), g.body_runs, [len(l) for l in g.item_log]) for g in self.gens]
        done_before = [b.status == "done" for b in m.gens]
        rep = self._do(op)
        self.sync_gens()
        self.nops += 1
        b = self.gens[gi].batch
        r = (rep[0], T.tok(rep[1]) if name not in ("add", "add_to", "strdump") or rep[0] == "exc" else None)
        self.last = r
        what = "%s(%s)" % (name, ",".join(map(str, op[1:])))
        state = "a pending" if was_pending else "a finished"

        def expect(exp, sig):
            if r != exp:
                V.append((sig, "%s on %s batch #%d (%d items, body '%s') answered %r, expected %r"
                          % (what, state, gi, len(mb.items), m.body, r, exp)))

        def report(st, kind):
            if kind == "value":
                return ("ret", st[1]) if st[0] == "v" else ("exc", st[1])
            return ("ret", None) if st[0] == "v" else ("ret", st[1])

        # ---- step the reference machine and judge the answer
        if name in ("add", "add_to"):
            if was_pending:
                self._stat("judged: item added to a pending batch")
                mb.items.append(None)
                mb.by_body.append(False)
                if rep[0] == "exc":
                    V.append(("add-rejected", "%s on a pending batch raised %r" % (what, r[1])))
                elif rep[1].batch is not b:
                    V.append(("harness", "%s on a pending batch joined another batch" % what))
            else:
                # only add_to can address a finished batch: ("add",) always goes to the pending last one
                self._stat("judged: item added directly to a finished batch")
                if not (rep[0] == "exc" and isinstance(rep[1], AssertionError)):
                    V.append(("added-to-finished-batch", "constructing an item on a finished batch (%s) answered %r instead of "
                              "raising AssertionError" % (mb.how, r)))
        elif name == "flush":
            if was_pending:
                self._stat("judged: flush() on a pending batch")
                m.run_body(gi)
                expect(("ret", None), "flush-raised")
            else:
                self._stat("judged: flush() on a finished batch")
                if not (rep[0] == "exc" and isinstance(rep[1], self.H.B.BatchingError)):
                    V.append(("second-flush-accepted", "flush() on a finished batch (%s) answered %r instead of raising BatchingError"
                              % (mb.how, r)))
        elif name == "cancel":
            self._stat("judged: cancel() on %s batch" % state)
            if was_pending:
                m.cancel(gi, op[2] if len(op) > 2 else CANCELLED)
            expect(("ret", None), "cancel-raised")
        elif name in ("ival", "ierr"):
            i = op[2]
            if mb.items[i] is None:
                self._stat("judged: item asked while its batch is pending")
                m.run_body(gi)
            else:
                self._stat("judged: computed item asked")
            expect(report(mb.items[i], "value" if name == "ival" else "error"), "item-report")
            if rep[0] == "exc" and rep[1] is not self.gens[gi].items[i]._error:
                V.append(("item-report", "%s raised an exception that is not the item's error() object" % what))
        elif name in ("bval", "berr"):
            if was_pending:
                self._stat("judged: batch value()/error() on a pending batch")
                m.run_body(gi)
            if was_pending and name == "berr" and mb.outcome[0] == "e" and r == ("exc", mb.outcome[1]):
                # the call that performs the computation may raise the error it recorded (as for any future, C10);
                # what the statement forbids is flush() raising
                self._stat("batch error() raised the flush error while computing (accepted)")
            else:
                expect(report(mb.outcome, "value" if name == "bval" else "error"), "batch-report")
        elif name == "query":
            if rep[0] == "exc":
                V.append(("query", "state query raised %r" % (r[1],)))
            else:
                fl, ca, em = rep[1]
                if fl != (not was_pending):
                    V.append(("query", "is_flushed() is %r on %s batch" % (fl, state)))
                if was_pending and ca:
                    V.append(("query", "is_cancelled() is True on a pending batch"))
                if mb.how == "cancel" and not ca:
                    V.append(("query", "is_cancelled() is False on a cancelled batch"))
                if mb.how == "body" and ca:
                    V.append(("query", "is_cancelled() is True on a batch whose flush succeeded"))
                if was_pending and em != (len(mb.items) == 0):
                    V.append(("query", "is_empty() is %r on a pending batch with %d items" % (em, len(mb.items))))
        elif name == "strdump":
            if rep[0] == "exc":
                self._stat("str/dump raised (not judged here)")

        # ---- the active-batch pointer
        if len(m.gens) > len(self.gens):
            # R5 says a fresh batch exists.  Through a flush that is part of the statement; after a cancellation
            # without flush the statement is silent, and the reference adopts what the implementation did.
            if mb.body_runs == 0 and mb.how == "cancel" and self.current() is b:
                m.gens.pop()
                self._stat("no fresh batch after a cancellation without flush (not judged)")
            else:
                V.append(("no-fresh-batch", "after %s on %s batch #%d there is no fresh active batch" % (what, state, gi)))
        elif len(m.gens) < len(self.gens):
            V.append(("unexpected-batch", "%s on %s batch #%d created a new active batch" % (what, state, gi)))

        # ---- lock-step comparison of the observable state of every batch with R5
        for k, (g, rb) in enumerate(zip(self.gens, m.gens)):
            nann, nbody, nlogs = before[k] if k < len(before) else (0, 0, [])
            finished_now = rb.status == "done" and not (done_before[k] if k < len(done_before) else False)
            ran = g.body_runs - nbody
            bb = g.batch
            if g.counted and g.body_runs != rb.body_runs:
                V.append(("body-runs", "the flush body of batch #%d has run %d time(s), expected %d after %s on %s batch #%d"
                          % (k, g.body_runs, rb.body_runs, what, state, gi)))
            if ran and g.body_active_self[-1]:
                V.append(("active-during-flush", "batch #%d was still the active batch while its flush body ran (%s)" % (k, what)))
            ob = self._obs(bb)
            if ob != rb.outcome:
                V.append(("batch-state", "after %s on %s batch #%d, batch #%d reads %r, expected %r" % (what, state, gi, k, ob, rb.outcome)))
            if len(g.items) != len(rb.items):
                V.append(("members", "batch #%d has %d member items, expected %d after %s" % (k, len(g.items), len(rb.items), what)))
            for i, it in enumerate(g.items[:len(rb.items)]):
                oi = self._obs(it)
                n0 = nlogs[i] if i < len(nlogs) else 0
                if oi != rb.items[i]:
                    sig = "item-left-pending" if oi is None else "item-outcome"
                    V.append((sig, "after %s on %s batch #%d (body '%s') item %d of batch #%d reads %r, expected %r"
                              % (what, state, gi, m.body, i, k, oi, rb.items[i])))
                    continue
                if not finished_now or oi is None:
                    continue
                if oi[0] == "e" and not rb.by_body[i]:
                    if oi[1] == ASSERT:
                        if "wasn't set" not in str(it._error):
                            V.append(("item-outcome", "item %d got an AssertionError that does not say it was not set: %s" % (i, it._error)))
                    elif it._error is not bb._error:
                        V.append(("item-error-identity", "leftover item %d does not carry the batch's own error object" % i))
                if rb.by_body[i] and rb.body_runs:
                    if any(g.item_log[i][n0:]):
                        V.append(("active-during-flush", "item %d was completed by the flush body of batch #%d while that batch was "
                                  "still the active batch" % (i, k)))
            if len(g.announce) != rb.announced:
                V.append(("announce-count", "batch #%d announced its completion %d time(s), expected %d after %s on %s batch #%d"
                          % (k, len(g.announce), rb.announced, what, state, gi)))
            for snap in g.announce[nann:]:
                if not all(snap):
                    V.append(("announced-before-items", "batch #%d announced its completion while its items %s were not computed "
                              "(%s, body '%s')" % (k, [i for i, x in enumerate(snap) if not x], what, m.body)))
        if self.trouble:
            V.extend(self.trouble)
            self.trouble = []
        return V


def make(root):
    return World(root)


def describe(root, ops):
    return "%s batch, body '%s', %d initial items: %s" % (
        root[0], root[1], root[2], " ; ".join("%s(%s)" % (o[0], ",".join(map(str, o[1:]))) for o in ops) or "<construction>")


def run(job, env):
    roots = [(job["target"], job["body"], n, job["gens"]) for n in range(MAX_ITEMS + 1)]
    label = "%s/%s" % (job["target"], job["body"])
    res = histx.explore(make, roots, job["depth"], env, label, describe)
    res["counters"] = {"%s: %s" % (label, k): v for k, v in res["counters"].items()}
    return res


def replay(case, env):
    return histx.replay(make, case, describe)


def finish(acc, tier):
    return {"bounds": {"history length": DEPTH[tier], "initial items": [0, 1, 2, 3], "max items": [MAX_ITEMS, MAX_FRESH],
                       "successive batches addressed": GENS[tier], "flush bodies": BODIES,
                       "targets": ["harness BatchBase subclass", "DebugBatch/DebugBatchItem"]}}
