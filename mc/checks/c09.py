"""C09 - all ways of calling an async function agree, for every kind of callable.

PRODX: the full finite product  decorator x binding x argument pattern x body x calling convention (x failing body
x two-decorator stacks in the thorough tier) is generated programmatically; every cell builds fresh functions/classes,
decorates them with the real library, calls them through one convention and is compared with a plain-Python twin of the
body (same signature, no asynq) that is called directly.
"""
import time

ID = "C09"
ENGINE = "PRODX"
BUILDS = ("pure", "compiled")
TECHNIQUE = "exhaustive enumeration of a finite configuration product on the real decorators vs a direct plain-Python reference"
EXPLANATION = ("every cell of the decorator x binding x arguments x body x convention product is executed on freshly generated "
               "callables and compared with a direct call of an undecorated twin of the body")
RULE = ("cell = (decorator, binding, argument pattern, body kind, calling convention[, failing body][, stack of two wrappers]); "
        "decorators: asynq(), asynq(pure=True), async_proxy(), asynq(sync_fn=), async_proxy(sync_fn=), make_async_decorator, "
        "deduplicate(), aretry, alru_cache, acached_per_instance (the last three only on the bindings they are written for) and an "
        "undecorated control; bindings: function, method via instance / via class with explicit self / via subclass instance, "
        "classmethod via class / instance / subclass, staticmethod via class / instance; signature (a, b=dB, *, k=dK) called "
        "all-positional, all-keyword, default omitted, with the keyword-only argument, mixed; bodies: plain return, generator "
        "yielding a ConstFuture, generator blocking on a DebugBatchItem; conventions: f(...), f.asynq(...).value(), yield "
        "f.asynq(...) from a task, async_call.asynq(f, ...).value(), async_call(f, ...), yield async_call.asynq(f, ...), "
        "get_async_fn(f)(...), get_async_fn(f, wrap_if_none=True)(...), get_async_or_sync_fn(f)(...). Every cell is executed "
        "(no sampling) on fresh objects in both builds. evals = cells executed (both builds); states = distinct cells (counted "
        "once, in the pure build); transitions = calls made into the library (calls of decorated objects, async_call and the "
        "classification helpers); non-trivial = cells whose binding binds an instance or class object (method and classmethod "
        "bindings), i.e. where the binder has to prepend the bound object exactly once")
ASSUMPTIONS = [
    "sync_fn has the shape the decorator is written for: asynq(sync_fn=) gets the same descriptor kind as the async function "
    "(plain function / classmethod / staticmethod object, as in test_decorators.py, re-bound by AsyncAndSyncPairDecorator.__get__); "
    "async_proxy(sync_fn=) does no descriptor re-binding (its binder prepends the bound object), so it gets a plain function with "
    "the async function's signature",
    "sync_fn computes the same value as the async body; which of the two ran is read from the body log",
    "for @asynq(pure=True) the synchronous call returns a future (that is what pure means) and there is no .asynq attribute; "
    "the '.asynq' conventions call the pure function itself and has_async_fn() must then answer False",
    "aretry is used as aretry(Exception, max_tries=2, sleep=0) so that failing bodies cost no wall-clock time; a failing body "
    "under aretry is expected to run max_tries times",
    "every cell builds fresh functions, classes and caches, so cache hits and task de-duplication never hide a body run",
]

A, B, K, DB, DK = "a1", "b2", "k3", "dB", "dK"

DECOS = ["plain", "asynq", "pure", "proxy", "asynq_sync", "proxy_sync", "mad", "dedup", "aretry", "alru", "acpi"]
WRAPPERS = ["mad", "dedup", "aretry", "alru", "acpi"]
# m_falsy: method reached through an instance whose truth value is False (empty container-like object):
# binding must depend on `instance is None`, never on the instance's truthiness
BINDINGS = ["func", "m_inst", "m_cls", "m_sub", "m_falsy", "cm_cls", "cm_inst", "cm_sub", "sm_cls", "sm_inst", "sm_falsy"]
ARGPATS = {
    "pos": ((A, B), {}),
    "kw": ((), {"a": A, "b": B}),
    "default": ((A,), {}),
    "kwonly": ((A, B), {"k": K}),
    "mixed": ((A,), {"b": B, "k": K}),
}
BODIES = ["plain", "gen", "batch"]
CONVS = ["sync", "asynq_value", "yield", "acall_asynq", "acall_sync", "acall_yield",
         "get_async_fn", "get_async_fn_wrap", "get_async_or_sync_fn"]
FUNCTION_STYLE = {"aretry": ("func", "m_inst", "m_cls", "m_sub", "m_falsy"), "alru": ("func", "m_inst", "m_cls", "m_sub", "m_falsy"),
                  "acpi": ("m_inst", "m_cls", "m_sub", "m_falsy")}
BOUND = ("m_inst", "m_cls", "m_sub", "m_falsy", "cm_cls", "cm_inst", "cm_sub")

SKIPPED = {
    "asynq(pure=True, sync_fn=...)": "assert at decoration time: 'sync_fn is not supported for pure async functions'",
    "async_proxy(pure=True, sync_fn=...)": "assert at decoration time: 'sync_fn=? cannot be used together with pure=True'",
    "async_proxy(pure=True)": "returns the function unchanged (no decorator object to test)",
    "asynq() over an already async function": "assert at decoration time: '@asynq() decorator can be applied just once'",
    "aretry / alru_cache on classmethod and staticmethod bindings, acached_per_instance on anything but instance methods":
        "function-style wrappers: written for functions and instance methods (statement quantifier)",
    "undecorated control with generator bodies": "a bare generator function is not a callable of the property's alphabet",
    "deduplicate over make_async_decorator (thorough stacks)": "deduplicate() reads fun.task_cls, which AsyncWrapper does not have "
                                                                "(AttributeError at decoration time)",
}


class C09Error(Exception):
    pass


# ----------------------------------------------------------------------------------------------------------------
# library access (lazy: only in workers / replay, after the build under test is on sys.path)

_LIB = None


class _Lib(object):
    pass


def lib():
    global _LIB
    if _LIB is None:
        import asynq
        import asynq.batching as batching
        import asynq.decorators as decorators
        import asynq.scheduler as scheduler
        import asynq.tools as tools
        from asynq.futures import FutureBase
        L = _Lib()
        L.asynq = asynq.asynq
        L.async_proxy = asynq.async_proxy
        L.async_call = asynq.async_call
        L.ConstFuture = asynq.ConstFuture
        L.FutureBase = FutureBase
        L.DebugBatchItem = batching.DebugBatchItem
        L.batching = batching
        L.scheduler = scheduler
        L.tools = tools
        L.D = decorators
        L.profiler = asynq.profiler
        _LIB = L
    return _LIB


def reset_lib():
    L = lib()
    L.scheduler.reset()
    L.profiler.reset()
    L.tools.DeduplicateDecorator.tasks.clear()
    L.batching._debug_batch_state.batches.clear()


def worker_init(env):
    from .. import progx
    progx.worker_init(env)
    lib()


# ----------------------------------------------------------------------------------------------------------------
# reference: plain twins of the body (python's own argument binding, no asynq)


def got_of(body, a):
    return None if body == "plain" else (("cf", a) if body == "gen" else ("bi", a))


def value_of(body, a, b, k):
    return ("R", body, a, b, k, got_of(body, a))


def ref_bound(self, a, b=DB, *, k=DK):
    return self, (a, b, k)


def ref_free(a, b=DB, *, k=DK):
    return None, (a, b, k)


def reference(cell, bound, pre, args, kwargs):
    """expected (bound object, normalised args, outcome) of one call"""
    if has_bound(cell["binding"]):
        first = pre if pre else (bound,)
        rb, norm = ref_bound(*(first + args), **kwargs)
    else:
        rb, norm = ref_free(*args, **kwargs)
    if cell.get("fail"):
        out = ("err", "C09Error", (cell["body"],) + norm)
    else:
        v = value_of(cell["body"], *norm)
        for w in stack_of(cell):
            if w == "mad":
                v = ("W", v)
        out = ("ok", v)
    return rb, norm, out


def has_bound(binding):
    return binding in BOUND


def stack_of(cell):
    """wrappers applied over the base decorator, innermost first"""
    if cell.get("stack"):
        return list(cell["stack"])
    return [cell["deco"]] if cell["deco"] in WRAPPERS else []


def base_of(cell):
    return "asynq" if (cell.get("stack") or cell["deco"] in WRAPPERS) else cell["deco"]


# ----------------------------------------------------------------------------------------------------------------
# programmatic generation of bodies, sync twins, classes


def make_body(body, bound, log, tag, fail, proxy=False):
    """the user function: signature ([self,] a, b=dB, *, k=dK); logs (tag, bound object, (a, b, k)).
    proxy=True: a non-generator function returning a future (what @async_proxy wraps)."""
    L = lib()

    def enter(s, a, b, k):
        log.append((tag, s, (a, b, k)))

    def leave(a, b, k, got):
        if fail:
            raise C09Error(body, a, b, k)
        return ("R", body, a, b, k, got)

    if proxy:
        if body == "plain":
            def core(s, a, b, k):
                enter(s, a, b, k)
                return L.ConstFuture(leave(a, b, k, None))
        else:
            impl = L.asynq()(make_body(body, False, [], "impl", fail))

            def core(s, a, b, k):
                enter(s, a, b, k)
                return impl.asynq(a, b, k=k)
        if bound:
            def fn(self, a, b=DB, *, k=DK):
                return core(self, a, b, k)
        else:
            def fn(a, b=DB, *, k=DK):
                return core(None, a, b, k)
        return fn
    if body == "plain":
        if bound:
            def fn(self, a, b=DB, *, k=DK):
                enter(self, a, b, k)
                return leave(a, b, k, None)
        else:
            def fn(a, b=DB, *, k=DK):
                enter(None, a, b, k)
                return leave(a, b, k, None)
    elif body == "gen":
        if bound:
            def fn(self, a, b=DB, *, k=DK):
                enter(self, a, b, k)
                got = yield L.ConstFuture(("cf", a))
                return leave(a, b, k, got)
        else:
            def fn(a, b=DB, *, k=DK):
                enter(None, a, b, k)
                got = yield L.ConstFuture(("cf", a))
                return leave(a, b, k, got)
    else:
        if bound:
            def fn(self, a, b=DB, *, k=DK):
                enter(self, a, b, k)
                got = yield L.DebugBatchItem("c09", ("bi", a))
                return leave(a, b, k, got)
        else:
            def fn(a, b=DB, *, k=DK):
                enter(None, a, b, k)
                got = yield L.DebugBatchItem("c09", ("bi", a))
                return leave(a, b, k, got)
    fn.__name__ = fn.__qualname__ = "c09_%s_%s" % (tag, body)
    return fn


def make_sync_twin(body, bound, log, fail):
    """sync_fn: same signature and value as the async body, logs under the tag 'sync'"""
    def run(s, a, b, k):
        log.append(("sync", s, (a, b, k)))
        if fail:
            raise C09Error(body, a, b, k)
        return value_of(body, a, b, k)

    if bound:
        def sync_fn(self, a, b=DB, *, k=DK):
            return run(self, a, b, k)
    else:
        def sync_fn(a, b=DB, *, k=DK):
            return run(None, a, b, k)
    return sync_fn


def kind_wrap(binding):
    if binding.startswith("cm_"):
        return classmethod
    if binding.startswith("sm_"):
        return staticmethod
    return lambda f: f


def apply_wrapper(w, inner):
    L = lib()
    if w == "mad":
        @L.asynq(pure=True)
        def wrapper_fn(*args, **kwargs):
            v = yield inner.asynq(*args, **kwargs)
            return ("W", v)

        return L.D.make_async_decorator(inner, wrapper_fn, "c09wrap")
    if w == "dedup":
        return L.tools.deduplicate()(inner)
    if w == "aretry":
        return L.tools.aretry(Exception, max_tries=2, sleep=0)(inner)
    if w == "alru":
        return L.tools.alru_cache()(inner)
    if w == "acpi":
        return L.tools.acached_per_instance()(inner)
    raise ValueError(w)


def decorate(cell, log):
    """returns the decorated object to be used as module-level function or class attribute"""
    L = lib()
    body, binding, fail = cell["body"], cell["binding"], bool(cell.get("fail"))
    bound = has_bound(binding)
    wk = kind_wrap(binding)
    base = base_of(cell)
    if base == "plain":
        obj = wk(make_body(body, bound, log, "body", fail))
    elif base == "asynq":
        obj = L.asynq()(wk(make_body(body, bound, log, "body", fail)))
    elif base == "pure":
        obj = L.asynq(pure=True)(wk(make_body(body, bound, log, "body", fail)))
    elif base == "proxy":
        obj = L.async_proxy()(wk(make_body(body, bound, log, "body", fail, proxy=True)))
    elif base == "asynq_sync":
        sync_fn = wk(make_sync_twin(body, bound, log, fail))
        obj = L.asynq(sync_fn=sync_fn)(wk(make_body(body, bound, log, "body", fail)))
    elif base == "proxy_sync":
        sync_fn = make_sync_twin(body, bound, log, fail)
        obj = L.async_proxy(sync_fn=sync_fn)(wk(make_body(body, bound, log, "body", fail, proxy=True)))
    else:
        raise ValueError(base)
    for w in stack_of(cell):
        obj = apply_wrapper(w, obj)
    return obj


class Access(object):
    __slots__ = ("f", "pre", "bound", "keep")


def build(cell, log):
    """fresh generated callable for one cell: returns Access(f, pre-args, expected bound object)"""
    obj = decorate(cell, log)
    binding = cell["binding"]
    acc = Access()
    acc.pre = ()
    acc.bound = None
    if binding == "func":
        acc.f = obj
        acc.keep = (obj,)
        return acc
    cls = type("C09Cls", (object,), {"m": obj})
    sub = type("C09Sub", (cls,), {})
    falsy = type("C09Empty", (cls,), {"__len__": lambda self: 0})
    inst = cls()
    subinst = sub()
    finst = falsy()
    acc.keep = (cls, sub, inst, subinst, falsy, finst)
    if binding == "m_falsy":
        acc.f, acc.bound = finst.m, finst
    elif binding == "sm_falsy":
        acc.f = finst.m
    elif binding == "m_inst":
        acc.f, acc.bound = inst.m, inst
    elif binding == "m_cls":
        acc.f, acc.bound, acc.pre = cls.m, inst, (inst,)
    elif binding == "m_sub":
        acc.f, acc.bound = subinst.m, subinst
    elif binding == "cm_cls":
        acc.f, acc.bound = cls.m, cls
    elif binding == "cm_inst":
        acc.f, acc.bound = inst.m, cls
    elif binding == "cm_sub":
        acc.f, acc.bound = sub.m, sub
    elif binding == "sm_cls":
        acc.f = cls.m
    elif binding == "sm_inst":
        acc.f = inst.m
    else:
        raise ValueError(binding)
    return acc


# ----------------------------------------------------------------------------------------------------------------
# one cell


def skip_reason(cell):
    deco, binding, body = cell["deco"], cell["binding"], cell["body"]
    for w in stack_of(cell):
        if w in FUNCTION_STYLE and binding not in FUNCTION_STYLE[w]:
            return "function-style wrapper on a binding it is not written for"
    st = stack_of(cell)
    if len(st) == 2 and st[0] == "mad" and st[1] == "dedup":
        return "deduplicate over make_async_decorator"
    if deco == "plain" and body != "plain":
        return "undecorated control with generator body"
    return None


def features(cell):
    f = ["deco:" + cell["deco"], "bind:" + cell["binding"], "args:" + cell["argpat"], "body:" + cell["body"],
         "conv:" + cell["conv"]]
    if cell.get("fail"):
        f.append("fail")
    if cell.get("stack"):
        f.append("stack:" + "+".join(cell["stack"]))
    return f


def describe(cell):
    d = cell["deco"] if not cell.get("stack") else "asynq>" + ">".join(cell["stack"])
    return "%s / %s / args %s / body %s%s / %s" % (d, cell["binding"], cell["argpat"], cell["body"],
                                                   " raising" if cell.get("fail") else "", cell["conv"])


def _outcome(thunk):
    try:
        return ("ok", thunk())
    except C09Error as e:
        return ("err", "C09Error", e.args)
    except Exception as e:  # anything else the library raises is an outcome to be judged, not a harness error
        return ("err", type(e).__name__, (str(e)[:200],))


def run_cell(cell, stats=None):
    """executes one cell on fresh objects; returns a list of (sig, msg)"""
    L = lib()
    reset_lib()
    viol = []
    calls = [0]

    def v(sig, msg):
        viol.append((sig, "%s: %s" % (describe(cell), msg)))

    log = []
    try:
        acc = build(cell, log)
    except Exception as e:
        if cell.get("stack"):
            # three-deep stacks are an extension beyond the statement's quantifier: a stack the library refuses to
            # build (loudly, at decoration time) is recorded in the evidence, not judged
            if stats is not None:
                stats.setdefault("rejected", []).append("%s over %s over asynq(): %s: %s" % (
                    cell["stack"][1], cell["stack"][0], type(e).__name__, str(e)[:80]))
            return None
        v("decoration-failed", "building the callable raised %s: %s" % (type(e).__name__, str(e)[:200]))
        return viol
    f, conv = acc.f, cell["conv"]
    args, kwargs = ARGPATS[cell["argpat"]]
    args = acc.pre + tuple(args)
    kwargs = dict(kwargs)
    exp_bound, exp_norm, exp_out = reference(cell, acc.bound, acc.pre, tuple(ARGPATS[cell["argpat"]][0]), kwargs)
    base = base_of(cell)
    stacked = stack_of(cell)
    is_control = base == "plain"
    # how the object can actually be called (harness knowledge used only to pick the spelling of a convention)
    pure_kind = base == "pure" and not stacked
    has_sync = base in ("asynq_sync", "proxy_sync") and not stacked
    exp_tag = "body"
    exp_runs = 1
    if cell.get("fail") and "aretry" in stacked:
        exp_runs = 2 ** stacked.count("aretry")

    D = L.D
    FutureBase = L.FutureBase
    answers = {}

    def ask(name, fn, *a, **kw):
        calls[0] += 1
        try:
            r = fn(*a, **kw)
        except Exception as e:
            v("classifier-raised", "%s raised %s: %s" % (name, type(e).__name__, str(e)[:160]))
            r = None
        answers[name] = r
        return r

    def fut_value(r, what):
        """r must be a future; returns its value (raises what the future raises)"""
        if not isinstance(r, FutureBase):
            v("not-a-future", "%s returned %r instead of a future" % (what, type(r).__name__))
            return r
        return r.value()

    def driver(mk):
        @L.asynq()
        def c09_driver():
            got = yield mk()
            return got
        return c09_driver()

    out = None
    if conv == "sync":
        p = ask("is_pure_async_fn", D.is_pure_async_fn, f)
        state = {}

        def thunk():
            calls[0] += 1
            r = f(*args, **kwargs)
            state["future"] = isinstance(r, FutureBase)
            return r.value() if state["future"] else r
        out = _outcome(thunk)
        if "future" in state and p is not None and bool(p) != state["future"]:
            v("classifier-inconsistent:is_pure_async_fn",
              "is_pure_async_fn says %r but the plain call returned a %s" % (p, "future" if state["future"] else "value"))
        if "future" in state and pure_kind and not state["future"]:
            v("not-a-future", "plain call of a pure async function returned a value, not a future")
        if has_sync:
            exp_tag = "sync"
    elif conv == "asynq_value":
        h = ask("has_async_fn", D.has_async_fn, f)
        exists = hasattr(f, "asynq")
        if exists:
            def thunk():
                calls[0] += 1
                return fut_value(f.asynq(*args, **kwargs), ".asynq(...)")
            out = _outcome(thunk)
            works = out == exp_out
        else:
            works = False
            if pure_kind or is_control:
                # no .asynq: the statement's convention for these is the call itself
                def thunk():
                    calls[0] += 1
                    r = f(*args, **kwargs)
                    return fut_value(r, "pure call") if pure_kind else r
                out = _outcome(thunk)
            else:
                v("no-asynq-attribute", "the decorated object has no .asynq attribute")
        if h is not None and bool(h) != works:
            v("classifier-inconsistent:has_async_fn",
              "has_async_fn says %r but .asynq %s" % (h, "works" if works else ("exists and misbehaves" if exists else "does not exist")))
    elif conv == "yield":
        if hasattr(f, "asynq"):
            def mk():
                calls[0] += 1
                return f.asynq(*args, **kwargs)
        elif is_control:
            def mk():
                calls[0] += 1
                return L.ConstFuture(f(*args, **kwargs))
        else:
            def mk():
                calls[0] += 1
                return f(*args, **kwargs)
        out = _outcome(lambda: driver(mk))
    elif conv == "acall_asynq":
        def thunk():
            calls[0] += 1
            return fut_value(L.async_call.asynq(f, *args, **kwargs), "async_call.asynq")
        out = _outcome(thunk)
    elif conv == "acall_sync":
        def thunk():
            calls[0] += 1
            return L.async_call(f, *args, **kwargs)
        out = _outcome(thunk)
    elif conv == "acall_yield":
        def mk():
            calls[0] += 1
            return L.async_call.asynq(f, *args, **kwargs)
        out = _outcome(lambda: driver(mk))
    elif conv in ("get_async_fn", "get_async_fn_wrap"):
        ia = ask("is_async_fn", D.is_async_fn, f)
        p = ask("is_pure_async_fn", D.is_pure_async_fn, f)
        h = ask("has_async_fn", D.has_async_fn, f)
        if conv == "get_async_fn":
            g = ask("get_async_fn", D.get_async_fn, f)
        else:
            g = ask("get_async_fn", D.get_async_fn, f, wrap_if_none=True)
        if ia is not None and bool(ia) != bool(p or h):
            v("classifier-inconsistent:is_async_fn", "is_async_fn says %r, is_pure_async_fn %r, has_async_fn %r" % (ia, p, h))
        if ia is not None and bool(ia) == is_control:
            v("classifier-inconsistent:is_async_fn", "is_async_fn says %r for %s" % (ia, "a plain callable" if is_control else "an async callable"))
        if g is None:
            if conv == "get_async_fn_wrap" or not is_control:
                v("classifier-inconsistent:get_async_fn", "get_async_fn returned None (is_async_fn says %r)" % (ia,))
            # control: nothing async to call; the convention degenerates to the plain call
            def thunk():
                calls[0] += 1
                return f(*args, **kwargs)
            out = _outcome(thunk)
        else:
            if is_control and conv == "get_async_fn":
                v("classifier-inconsistent:get_async_fn", "get_async_fn returned %r for a plain callable" % (g,))
            if conv == "get_async_fn_wrap" and is_control:
                pw = ask("is_pure_async_fn(wrapper)", D.is_pure_async_fn, g)
                if pw is not True:
                    v("classifier-inconsistent:get_async_fn", "wrap_if_none wrapper is not classified as pure async")

            def thunk():
                calls[0] += 1
                return fut_value(g(*args, **kwargs), "get_async_fn(f)(...)")
            out = _outcome(thunk)
    elif conv == "get_async_or_sync_fn":
        ia = ask("is_async_fn", D.is_async_fn, f)
        g = ask("get_async_or_sync_fn", D.get_async_or_sync_fn, f)
        if g is None:
            v("classifier-inconsistent:get_async_or_sync_fn", "get_async_or_sync_fn returned None")
            g = f
        if not ia and g is not f:
            v("classifier-inconsistent:get_async_or_sync_fn", "is_async_fn is false but the source function was not returned")

        def thunk():
            calls[0] += 1
            r = g(*args, **kwargs)
            if ia:
                return fut_value(r, "get_async_or_sync_fn(f)(...)")
            if isinstance(r, FutureBase):
                v("classifier-inconsistent:get_async_or_sync_fn", "is_async_fn is false but the call returned a future")
                return r.value()
            return r
        out = _outcome(thunk)
    else:
        raise ValueError(conv)

    # ---- oracle
    if out is not None and out != exp_out:
        if out[0] == "err" and exp_out[0] == "ok":
            v("unexpected-exception", "raised %s%r, reference returns %r" % (out[1], out[2], exp_out[1]))
        elif out[0] == "ok" and exp_out[0] == "err":
            v("exception-lost", "returned %r, reference raises %s%r" % (out[1], exp_out[1], exp_out[2]))
        elif out[0] == "err":
            v("exception-mismatch", "raised %s%r, reference raises %s%r" % (out[1], out[2], exp_out[1], exp_out[2]))
        else:
            v("value-mismatch", "returned %r, reference returns %r" % (out[1], exp_out[1]))
    if out is not None:
        tags = [e[0] for e in log]
        other = "sync" if exp_tag == "body" else "body"
        if other in tags:
            v("wrong-body", "%s ran (log %r); this convention must run %s" % (
                "sync_fn" if other == "sync" else "the async body", tags, "sync_fn" if exp_tag == "sync" else "the async body"))
        mine = [e for e in log if e[0] == exp_tag]
        if len(mine) != exp_runs:
            v("body-count", "%s ran %d times, expected %d (log %r)" % (exp_tag, len(mine), exp_runs, tags))
        for e in mine[:1]:
            if e[1] is not exp_bound:
                v("wrong-bound", "body received bound object %s, expected %s" % (_short(e[1], acc), _short(exp_bound, acc)))
            if e[2] != exp_norm:
                v("wrong-args", "body received (a, b, k) = %r, reference %r" % (_safe(e[2], acc), exp_norm))
    if stats is not None:
        stats["calls"] = stats.get("calls", 0) + calls[0]
    return viol


def _short(o, acc):
    if o is None:
        return "None"
    if acc.keep and len(acc.keep) == 4:
        names = ("the class", "the subclass", "the instance", "the subclass instance")
        for n, k in zip(names, acc.keep):
            if o is k:
                return n
    return "<%s>" % type(o).__name__ if not isinstance(o, str) else repr(o)


def _safe(t, acc):
    return tuple(x if isinstance(x, str) else _short(x, acc) for x in t)


# ----------------------------------------------------------------------------------------------------------------
# product enumeration


def stacks(tier):
    if tier != "thorough":
        return []
    return [(a, b) for a in WRAPPERS for b in WRAPPERS]


def groups(tier):
    """(deco, stack, fail) groups in simplest-first order"""
    out = [(d, None, False) for d in DECOS]
    if tier == "thorough":
        out += [(d, None, True) for d in DECOS]
        out += [("stack", s, False) for s in stacks(tier)]
        out += [("stack", s, True) for s in stacks(tier)]
    return out


def cells_of(deco, stack, fail, binding):
    for argpat in ARGPATS:
        for body in BODIES:
            for conv in CONVS:
                c = {"deco": deco, "binding": binding, "argpat": argpat, "body": body, "conv": conv}
                if fail:
                    c["fail"] = True
                if stack:
                    c["stack"] = list(stack)
                yield c


def jobs(tier, seed):
    for deco, stack, fail in groups(tier):
        for binding in BINDINGS:
            yield {"deco": deco, "stack": list(stack) if stack else None, "fail": fail, "binding": binding}


def run(job, env):
    hb = env["hb"]
    out = {"evals": 0, "states": 0, "transitions": 0, "nontrivial": 0, "violations": [], "samples": [], "counters": {}}
    cnt = out["counters"]
    stats = {}
    first_build = env["build"] == BUILDS[0]
    i = 0
    for cell in cells_of(job["deco"], job["stack"], job["fail"], job["binding"]):
        i += 1
        if i % 32 == 0:
            hb[0] = time.time()
            hb[2] = i
        why = skip_reason(cell)
        if why:
            cnt["skipped: " + why] = cnt.get("skipped: " + why, 0) + 1
            continue
        viol = run_cell(cell, stats)
        if viol is None:
            for r in stats.pop("rejected"):
                cnt["stack rejected at decoration time: " + r] = cnt.get("stack rejected at decoration time: " + r, 0) + 1
            continue
        out["evals"] += 1
        if first_build:
            out["states"] += 1
        if has_bound(cell["binding"]):
            out["nontrivial"] += 1
        key = "cells:" + ("stack" if cell.get("stack") else cell["deco"])
        cnt[key] = cnt.get(key, 0) + 1
        if cell.get("fail"):
            cnt["cells with failing body"] = cnt.get("cells with failing body", 0) + 1
        for sig, msg in viol:
            cnt["viol:" + sig] = cnt.get("viol:" + sig, 0) + 1
            if len(out["violations"]) < 40:
                out["violations"].append({"sig": sig, "msg": msg, "features": features(cell), "case": cell})
        if (not out["samples"] and has_bound(cell["binding"]) and cell["conv"] == "yield" and cell["argpat"] == "mixed"
                and cell["deco"] != "plain" and cell["body"] == "batch"):
            out["samples"].append(dict(cell))
    out["transitions"] = stats.get("calls", 0)
    return out


def replay(case, env):
    cell = dict(case)
    if "job" in cell and "deco" not in cell:  # watchdog case (hang / worker-died): re-run the whole job
        res = run(cell["job"], env)
        return res["violations"]
    return [{"sig": sig, "msg": msg, "features": features(cell), "case": cell} for sig, msg in run_cell(cell) or []]


def finish(acc, tier):
    rejected = sorted(k.split(": ", 1)[1] for k in acc.counters if k.startswith("stack rejected at decoration time: "))
    return {"bounds": {
        "stacks the library refuses to build (TypeError/AttributeError at decoration time; recorded, not judged)": rejected,
        "decorators": DECOS, "bindings": BINDINGS, "argument patterns": {k: repr(v) for k, v in ARGPATS.items()},
        "bodies": BODIES, "conventions": CONVS,
        "failing bodies": tier == "thorough",
        "stacks of two wrappers over asynq()": ["%s over %s" % (b, a) for a, b in stacks(tier)] or "thorough tier only",
        "skipped (unsupported by documentation / assert-guarded / outside the quantifier)": SKIPPED,
    }}
