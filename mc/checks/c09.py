"""C09 - all ways of calling an async function agree, for every kind of callable.

PRODX: the full finite product  decorator x binding x argument pattern x body x calling convention (x wrappers stacked on
sync_fn pairs x access histories of two bindings on one class hierarchy; x failing body x two-wrapper stacks in the
thorough tier) is generated programmatically; every cell builds fresh functions/classes, decorates them with the real
library, calls them through one convention per access and is compared with a plain-Python twin of the body (same
signature, no asynq) that is called directly.
"""
import time

ID = "C09"
ENGINE = "PRODX"
BUILDS = ("pure", "compiled")
TECHNIQUE = "exhaustive enumeration of a finite configuration product on the real decorators vs a direct plain-Python reference"
EXPLANATION = ("every cell of the decorator x binding x arguments x body x convention product is executed on freshly generated "
               "callables and compared with a direct call of an undecorated twin of the body")
RULE = ("cell = (decorator[, wrappers stacked on it], binding[, second binding], argument pattern, body kind, calling convention"
        "[, failing body]); "
        "decorators: asynq(), asynq(pure=True), async_proxy(), asynq(sync_fn=), async_proxy(sync_fn=), make_async_decorator, "
        "deduplicate(), aretry, alru_cache, acached_per_instance (the last three only on the bindings they are written for) and an "
        "undecorated control; bindings: function, method via instance / via class with explicit self / via subclass instance, "
        "method via an instance whose truth value is False, classmethod via class / instance / subclass, staticmethod via class / "
        "instance / falsy instance; signature (a, b=dB, *, k=dK) called "
        "all-positional, all-keyword, default omitted, with the keyword-only argument, mixed; bodies: plain return, generator "
        "yielding a ConstFuture, generator blocking on a DebugBatchItem; conventions: f(...), f.asynq(...).value(), yield "
        "f.asynq(...) from a task, async_call.asynq(f, ...).value(), async_call(f, ...), yield async_call.asynq(f, ...), "
        "get_async_fn(f)(...), get_async_fn(f, wrap_if_none=True)(...), get_async_or_sync_fn(f)(...). Wrappers over other bases: "
        "deduplicate / aretry / alru_cache / acached_per_instance / make_async_decorator stacked on asynq(sync_fn=), "
        "async_proxy(sync_fn=), async_proxy() and (make_async_decorator only) asynq(pure=True), on every binding the stack can be "
        "built for, with every convention and the classifier-consistency oracle on the bound objects (both tiers). Access histories (both tiers): for every "
        "decorator, body and argument pattern ONE generated class hierarchy is accessed through every ordered pair of bindings of "
        "the same descriptor kind (method: instance, a second instance, class with explicit self, subclass instance, falsy "
        "instance, two distinct instances that compare and hash equal; classmethod: class, instance, subclass, subclass instance; staticmethod: class, instance, subclass, falsy "
        "instance; function twice), including the same binding twice; the second access uses different argument values, each access "
        "is judged by the full oracle; quick uses the same convention for both accesses, thorough every convention pair and also "
        "the stacks over sync_fn pairs. Thorough adds failing bodies and all 25 two-wrapper stacks over asynq(). Every cell is executed "
        "(no sampling) on fresh objects in both builds. evals = cells executed (both builds); states = distinct cells (counted "
        "once, in the pure build); transitions = calls made into the library (calls of decorated objects, async_call and the "
        "classification helpers); non-trivial = cells whose binding binds an instance or class object (method and classmethod "
        "bindings), i.e. where the binder has to prepend the bound object exactly once")
ASSUMPTIONS = [
    "sync_fn has the shape the decorator is written for: asynq(sync_fn=) gets the same descriptor kind as the async function "
    "(plain function / classmethod / staticmethod object, as in test_decorators.py, re-bound by AsyncAndSyncPairDecorator.__get__); "
    "async_proxy(sync_fn=) does no descriptor re-binding (its binder prepends the bound object), so it gets a plain function with "
    "the async function's signature",
    "sync_fn computes the same value as the async body; which of the two ran is read from the body log",
    "for @asynq(pure=True) the synchronous call returns a future (that is what pure means) and there is no .asynq attribute; "
    "the '.asynq' conventions call the pure function itself and has_async_fn() must then answer False",
    "aretry is used as aretry(Exception, max_tries=2, sleep=0) so that failing bodies cost no wall-clock time; a failing body "
    "under aretry is expected to run max_tries times",
    "every cell builds fresh functions, classes and caches, so cache hits and task de-duplication never hide a body run; the "
    "second access of an access history uses different argument values for the same reason",
    "which body a SYNCHRONOUS call of a wrapper stacked on a sync_fn pair runs follows from what the wrapper is: deduplicate is "
    "an AsyncDecorator whose synchronous call is the synchronous call of the wrapped function, so sync_fn must run (and the "
    "async body must not); aretry, alru_cache, acached_per_instance and make_async_decorator build a NEW async function that "
    "awaits inner.asynq(...), which has no sync_fn of its own, so its synchronous call runs the async body. All other "
    "conventions run the async body in every stack",
]

A, B, K, DB, DK = "a1", "b2", "k3", "dB", "dK"

DECOS = ["plain", "asynq", "pure", "proxy", "asynq_sync", "proxy_sync", "mad", "dedup", "aretry", "alru", "acpi"]
WRAPPERS = ["mad", "dedup", "aretry", "alru", "acpi"]
# m_falsy: method reached through an instance whose truth value is False (empty container-like object):
# binding must depend on `instance is None`, never on the instance's truthiness
BINDINGS = ["func", "m_inst", "m_cls", "m_sub", "m_falsy", "cm_cls", "cm_inst", "cm_sub", "sm_cls", "sm_inst", "sm_falsy"]
ARGPATS = {
    "pos": ((A, B), {}),
    "kw": ((), {"a": A, "b": B}),
    "default": ((A,), {}),
    "kwonly": ((A, B), {"k": K}),
    "mixed": ((A,), {"b": B, "k": K}),
}
BODIES = ["plain", "gen", "batch"]
CONVS = ["sync", "asynq_value", "yield", "acall_asynq", "acall_sync", "acall_yield",
         "get_async_fn", "get_async_fn_wrap", "get_async_or_sync_fn"]
# function-style wrappers are written for functions and instance methods (every m_* binding, including m_falsy)
FUNCTION_STYLE = {"aretry": ("func", "m_"), "alru": ("func", "m_"), "acpi": ("m_",)}
SYNC_BASES = ["asynq_sync", "proxy_sync"]
# bases other than plain asynq() that the wrappers are stacked on (both tiers)
STACK_BASES = ["asynq_sync", "proxy_sync", "pure", "proxy"]
# bindings that only occur inside access histories (a second instance, subclass instance / subclass for class- and staticmethods)
HISTORY_BINDINGS = {
    "func": ["func"],
    # m_eqA / m_eqB: two DISTINCT instances of a subclass with value equality (a == b, hash(a) == hash(b))
    "m": ["m_inst", "m_inst2", "m_cls", "m_sub", "m_falsy", "m_eqA", "m_eqB"],
    "cm": ["cm_cls", "cm_inst", "cm_sub", "cm_subinst"],
    "sm": ["sm_cls", "sm_inst", "sm_sub", "sm_falsy"],
}

SKIPPED = {
    "asynq(pure=True, sync_fn=...)": "assert at decoration time: 'sync_fn is not supported for pure async functions'",
    "async_proxy(pure=True, sync_fn=...)": "assert at decoration time: 'sync_fn=? cannot be used together with pure=True'",
    "async_proxy(pure=True)": "returns the function unchanged (no decorator object to test)",
    "asynq() over an already async function": "assert at decoration time: '@asynq() decorator can be applied just once'",
    "aretry / alru_cache on classmethod and staticmethod bindings, acached_per_instance on anything but instance methods":
        "function-style wrappers: written for functions and instance methods (statement quantifier)",
    "undecorated control with generator bodies": "a bare generator function is not a callable of the property's alphabet",
    "deduplicate over make_async_decorator (thorough stacks)": "deduplicate() reads fun.task_cls, which AsyncWrapper does not have "
                                                                "(AttributeError at decoration time)",
    "deduplicate over asynq(sync_fn=<classmethod object>) on classmethod bindings": "the classmethod object given as sync_fn is "
        "only re-bound by AsyncAndSyncPairDecorator.__get__, which deduplicate's binder bypasses (synchronous call: TypeError "
        "'classmethod' object is not callable on the unchanged tree); outside the statement's quantifier",
    "deduplicate, aretry, alru_cache, acached_per_instance over asynq(pure=True)": "these wrappers call inner.asynq(...), which a "
        "pure async function does not have (AttributeError at decoration or call time); make_async_decorator leaves the call "
        "to the user's wrapper_fn and is stacked on pure functions",
    "deduplicate over async_proxy(...)": "deduplicate() needs the wrapped function's task class and async_proxy has none "
        "(synchronous call: TypeError 'NoneType' object is not callable on the unchanged tree); outside the statement's quantifier",
}


class C09Error(Exception):
    pass


# ----------------------------------------------------------------------------------------------------------------
# library access (lazy: only in workers / replay, after the build under test is on sys.path)

_LIB = None


class _Lib(object):
    pass


def lib():
    global _LIB
    if _LIB is None:
        import asynq
        import asynq.batching as batching
        import asynq.decorators as decorators
        import asynq.scheduler as scheduler
        import asynq.tools as tools
        from asynq.futures import FutureBase
        L = _Lib()
        L.asynq = asynq.asynq
        L.async_proxy = asynq.async_proxy
        L.async_call = asynq.async_call
        L.ConstFuture = asynq.ConstFuture
        L.FutureBase = FutureBase
        L.DebugBatchItem = batching.DebugBatchItem
        L.batching = batching
        L.scheduler = scheduler
        L.tools = tools
        L.D = decorators
        L.profiler = asynq.profiler
        _LIB = L
    return _LIB


def reset_lib():
    L = lib()
    L.scheduler.reset()
    L.profiler.reset()
    L.tools.DeduplicateDecorator.tasks.clear()
    L.batching._debug_batch_state.batches.clear()


def worker_init(env):
    from .. import progx
    progx.worker_init(env)
    lib()


# ----------------------------------------------------------------------------------------------------------------
# reference: plain twins of the body (python's own argument binding, no asynq)


def got_of(body, a):
    return None if body == "plain" else (("cf", a) if body == "gen" else ("bi", a))


def value_of(body, a, b, k):
    return ("R", body, a, b, k, got_of(body, a))


def ref_bound(self, a, b=DB, *, k=DK):
    return self, (a, b, k)


def ref_free(a, b=DB, *, k=DK):
    return None, (a, b, k)


def reference(cell, binding, bound, pre, args, kwargs):
    """expected (bound object, normalised args, outcome) of one call"""
    if has_bound(binding):
        first = pre if pre else (bound,)
        rb, norm = ref_bound(*(first + args), **kwargs)
    else:
        rb, norm = ref_free(*args, **kwargs)
    if cell.get("fail"):
        out = ("err", "C09Error", (cell["body"],) + norm)
    else:
        v = value_of(cell["body"], *norm)
        for w in stack_of(cell):
            if w == "mad":
                v = ("W", v)
        out = ("ok", v)
    return rb, norm, out


def has_bound(binding):
    return binding.startswith("m_") or binding.startswith("cm_")


def kind_of(binding):
    return binding.split("_")[0]


def fs_ok(w, binding):
    """may the function-style wrapper w be used on this binding"""
    return any(binding == p or (p.endswith("_") and binding.startswith(p)) for p in FUNCTION_STYLE[w])


def arg_values(argpat, shift):
    """(args, kwargs) of a pattern; the second access of a history uses primed values"""
    args, kwargs = ARGPATS[argpat]
    if not shift:
        return tuple(args), dict(kwargs)
    return tuple(x + "'" for x in args), {n: x + "'" for n, x in kwargs.items()}


def stack_of(cell):
    """wrappers applied over the base decorator, innermost first"""
    if cell.get("stack"):
        return list(cell["stack"])
    return [cell["deco"]] if cell["deco"] in WRAPPERS else []


def base_of(cell):
    if cell.get("base"):
        return cell["base"]
    return "asynq" if (cell.get("stack") or cell["deco"] in WRAPPERS) else cell["deco"]


def sync_call_runs_sync_fn(cell):
    """does a synchronous call of this (possibly stacked) callable run sync_fn (see ASSUMPTIONS)"""
    return base_of(cell) in SYNC_BASES and all(w == "dedup" for w in stack_of(cell))


# ----------------------------------------------------------------------------------------------------------------
# programmatic generation of bodies, sync twins, classes


def make_body(body, bound, log, tag, fail, proxy=False):
    """the user function: signature ([self,] a, b=dB, *, k=dK); logs (tag, bound object, (a, b, k)).
    proxy=True: a non-generator function returning a future (what @async_proxy wraps)."""
    L = lib()

    def enter(s, a, b, k):
        log.append((tag, s, (a, b, k)))

    def leave(a, b, k, got):
        if fail:
            raise C09Error(body, a, b, k)
        return ("R", body, a, b, k, got)

    if proxy:
        if body == "plain":
            def core(s, a, b, k):
                enter(s, a, b, k)
                return L.ConstFuture(leave(a, b, k, None))
        else:
            impl = L.asynq()(make_body(body, False, [], "impl", fail))

            def core(s, a, b, k):
                enter(s, a, b, k)
                return impl.asynq(a, b, k=k)
        if bound:
            def fn(self, a, b=DB, *, k=DK):
                return core(self, a, b, k)
        else:
            def fn(a, b=DB, *, k=DK):
                return core(None, a, b, k)
        return fn
    if body == "plain":
        if bound:
            def fn(self, a, b=DB, *, k=DK):
                enter(self, a, b, k)
                return leave(a, b, k, None)
        else:
            def fn(a, b=DB, *, k=DK):
                enter(None, a, b, k)
                return leave(a, b, k, None)
    elif body == "gen":
        if bound:
            def fn(self, a, b=DB, *, k=DK):
                enter(self, a, b, k)
                got = yield L.ConstFuture(("cf", a))
                return leave(a, b, k, got)
        else:
            def fn(a, b=DB, *, k=DK):
                enter(None, a, b, k)
                got = yield L.ConstFuture(("cf", a))
                return leave(a, b, k, got)
    else:
        if bound:
            def fn(self, a, b=DB, *, k=DK):
                enter(self, a, b, k)
                got = yield L.DebugBatchItem("c09", ("bi", a))
                return leave(a, b, k, got)
        else:
            def fn(a, b=DB, *, k=DK):
                enter(None, a, b, k)
                got = yield L.DebugBatchItem("c09", ("bi", a))
                return leave(a, b, k, got)
    fn.__name__ = fn.__qualname__ = "c09_%s_%s" % (tag, body)
    return fn


def make_sync_twin(body, bound, log, fail):
    """sync_fn: same signature and value as the async body, logs under the tag 'sync'"""
    def run(s, a, b, k):
        log.append(("sync", s, (a, b, k)))
        if fail:
            raise C09Error(body, a, b, k)
        return value_of(body, a, b, k)

    if bound:
        def sync_fn(self, a, b=DB, *, k=DK):
            return run(self, a, b, k)
    else:
        def sync_fn(a, b=DB, *, k=DK):
            return run(None, a, b, k)
    return sync_fn


def kind_wrap(binding):
    if binding.startswith("cm_"):
        return classmethod
    if binding.startswith("sm_"):
        return staticmethod
    return lambda f: f


def apply_wrapper(w, inner):
    L = lib()
    if w == "mad":
        @L.asynq(pure=True)
        def wrapper_fn(*args, **kwargs):
            if hasattr(inner, "asynq"):
                v = yield inner.asynq(*args, **kwargs)
            else:  # a pure async function: calling it gives the future
                v = yield inner(*args, **kwargs)
            return ("W", v)

        return L.D.make_async_decorator(inner, wrapper_fn, "c09wrap")
    if w == "dedup":
        return L.tools.deduplicate()(inner)
    if w == "aretry":
        return L.tools.aretry(Exception, max_tries=2, sleep=0)(inner)
    if w == "alru":
        return L.tools.alru_cache()(inner)
    if w == "acpi":
        return L.tools.acached_per_instance()(inner)
    raise ValueError(w)


def decorate(cell, log):
    """returns the decorated object to be used as module-level function or class attribute"""
    L = lib()
    body, binding, fail = cell["body"], cell["binding"], bool(cell.get("fail"))
    bound = has_bound(binding)
    wk = kind_wrap(binding)
    base = base_of(cell)
    if base == "plain":
        obj = wk(make_body(body, bound, log, "body", fail))
    elif base == "asynq":
        obj = L.asynq()(wk(make_body(body, bound, log, "body", fail)))
    elif base == "pure":
        obj = L.asynq(pure=True)(wk(make_body(body, bound, log, "body", fail)))
    elif base == "proxy":
        obj = L.async_proxy()(wk(make_body(body, bound, log, "body", fail, proxy=True)))
    elif base == "asynq_sync":
        sync_fn = wk(make_sync_twin(body, bound, log, fail))
        obj = L.asynq(sync_fn=sync_fn)(wk(make_body(body, bound, log, "body", fail)))
    elif base == "proxy_sync":
        sync_fn = make_sync_twin(body, bound, log, fail)
        obj = L.async_proxy(sync_fn=sync_fn)(wk(make_body(body, bound, log, "body", fail, proxy=True)))
    else:
        raise ValueError(base)
    for w in stack_of(cell):
        obj = apply_wrapper(w, obj)
    return obj


class Access(object):
    __slots__ = ("f", "pre", "bound", "keep")


class Hierarchy(object):
    """one generated class hierarchy (or bare function) carrying the decorated object"""
    __slots__ = ("obj", "cls", "sub", "falsy", "inst", "inst2", "subinst", "finst", "eqcls", "eqa", "eqb", "names")


def build(cell, log):
    """fresh generated callable for one cell, installed in a fresh class hierarchy unless it is a plain function"""
    obj = decorate(cell, log)
    h = Hierarchy()
    h.obj = obj
    h.names = []
    if cell["binding"] == "func":
        return h
    h.cls = type("C09Cls", (object,), {"m": obj})
    h.sub = type("C09Sub", (h.cls,), {})
    h.falsy = type("C09Empty", (h.cls,), {"__len__": lambda self: 0})
    h.inst = h.cls()
    h.inst2 = h.cls()
    h.subinst = h.sub()
    h.finst = h.falsy()
    # value equality: every instance of C09Eq equals every other one and hashes alike
    h.eqcls = type("C09Eq", (h.cls,), {"__eq__": lambda self, other: type(other) is type(self),
                                       "__ne__": lambda self, other: type(other) is not type(self),
                                       "__hash__": lambda self: 9})
    h.eqa = h.eqcls()
    h.eqb = h.eqcls()
    h.names = [(h.cls, "the class"), (h.sub, "the subclass"), (h.inst, "the instance"), (h.inst2, "the second instance"),
               (h.subinst, "the subclass instance"), (h.falsy, "the falsy class"), (h.finst, "the falsy instance"),
               (h.eqa, "equal-valued instance A"), (h.eqb, "equal-valued instance B")]
    return h


def access(h, binding):
    """one attribute access as a caller spells it: Access(f, explicit leading args, expected bound object)"""
    acc = Access()
    acc.pre = ()
    acc.bound = None
    acc.keep = h.names
    if binding == "func":
        acc.f = h.obj
    elif binding == "m_falsy":
        acc.f, acc.bound = h.finst.m, h.finst
    elif binding == "sm_falsy":
        acc.f = h.finst.m
    elif binding == "m_inst":
        acc.f, acc.bound = h.inst.m, h.inst
    elif binding == "m_inst2":
        acc.f, acc.bound = h.inst2.m, h.inst2
    elif binding == "m_eqA":
        acc.f, acc.bound = h.eqa.m, h.eqa
    elif binding == "m_eqB":
        acc.f, acc.bound = h.eqb.m, h.eqb
    elif binding == "m_cls":
        acc.f, acc.bound, acc.pre = h.cls.m, h.inst, (h.inst,)
    elif binding == "m_sub":
        acc.f, acc.bound = h.subinst.m, h.subinst
    elif binding == "cm_cls":
        acc.f, acc.bound = h.cls.m, h.cls
    elif binding == "cm_inst":
        acc.f, acc.bound = h.inst.m, h.cls
    elif binding == "cm_sub":
        acc.f, acc.bound = h.sub.m, h.sub
    elif binding == "cm_subinst":
        acc.f, acc.bound = h.subinst.m, h.sub
    elif binding == "sm_cls":
        acc.f = h.cls.m
    elif binding == "sm_inst":
        acc.f = h.inst.m
    elif binding == "sm_sub":
        acc.f = h.sub.m
    else:
        raise ValueError(binding)
    return acc


# ----------------------------------------------------------------------------------------------------------------
# one cell


def skip_reason(cell):
    deco, body = cell["deco"], cell["body"]
    st = stack_of(cell)
    for binding in (cell["binding"], cell.get("binding2")):
        if binding is None:
            continue
        for w in st:
            if w in FUNCTION_STYLE and not fs_ok(w, binding):
                return "function-style wrapper on a binding it is not written for"
        if "dedup" in st and base_of(cell) == "asynq_sync" and binding.startswith("cm_"):
            return "deduplicate over asynq(sync_fn=<classmethod object>) on a classmethod binding"
    if "dedup" in st and base_of(cell) in ("proxy", "proxy_sync"):
        return "deduplicate over async_proxy"
    if base_of(cell) == "pure" and st and st[0] != "mad":
        return "deduplicate / function-style wrapper over asynq(pure=True)"
    if len(st) == 2 and st[0] == "mad" and st[1] == "dedup":
        return "deduplicate over make_async_decorator"
    if deco == "plain" and body != "plain":
        return "undecorated control with generator body"
    return None


def features(cell):
    f = ["deco:" + cell["deco"], "bind:" + cell["binding"], "args:" + cell["argpat"], "body:" + cell["body"],
         "conv:" + cell["conv"]]
    if cell.get("fail"):
        f.append("fail")
    if cell.get("stack"):
        f.append("stack:" + "+".join(cell["stack"]))
    if cell.get("base"):
        f.append("base:" + cell["base"])
    if cell.get("binding2"):
        f.append("bind2:" + cell["binding2"])
        f.append("conv2:" + (cell.get("conv2") or cell["conv"]))
    return f


def describe(cell):
    d = cell["deco"] if not cell.get("stack") else base_of(cell) + ">" + ">".join(cell["stack"])
    b, c = cell["binding"], cell["conv"]
    if cell.get("binding2"):
        b += " then " + cell["binding2"]
        if cell.get("conv2") and cell["conv2"] != c:
            c += " then " + cell["conv2"]
    return "%s / %s / args %s / body %s%s / %s" % (d, b, cell["argpat"], cell["body"],
                                                   " raising" if cell.get("fail") else "", c)


def _outcome(thunk):
    try:
        return ("ok", thunk())
    except C09Error as e:
        return ("err", "C09Error", e.args)
    except Exception as e:  # anything else the library raises is an outcome to be judged, not a harness error
        return ("err", type(e).__name__, (str(e)[:200],))


def run_cell(cell, stats=None):
    """executes one cell on fresh objects; returns a list of (sig, msg)"""
    reset_lib()
    viol = []
    calls = [0]

    def v(sig, msg):
        viol.append((sig, "%s: %s" % (describe(cell), msg)))

    log = []
    try:
        h = build(cell, log)
    except Exception as e:
        if cell.get("stack") and not cell.get("base"):
            # three-deep stacks are an extension beyond the statement's quantifier: a stack the library refuses to
            # build (loudly, at decoration time) is recorded in the evidence, not judged
            if stats is not None:
                stats.setdefault("rejected", []).append("%s over %s over asynq(): %s: %s" % (
                    cell["stack"][1], cell["stack"][0], type(e).__name__, str(e)[:80]))
            return None
        v("decoration-failed", "building the callable raised %s: %s" % (type(e).__name__, str(e)[:200]))
        return viol
    steps = [(cell["binding"], cell["conv"], 0)]
    if cell.get("binding2"):
        steps.append((cell["binding2"], cell.get("conv2") or cell["conv"], 1))
    for i, (binding, conv, shift) in enumerate(steps):
        del log[:]
        if len(steps) == 1:
            vi = v
        else:
            def vi(sig, msg, _p="access %d (%s, %s): " % (i + 1, binding, conv)):
                v(sig, _p + msg)
        try:
            acc = access(h, binding)
        except Exception as e:
            vi("access-failed", "looking the attribute up raised %s: %s" % (type(e).__name__, str(e)[:200]))
            continue
        _judge_access(cell, acc, binding, conv, shift, log, vi, calls)
    if stats is not None:
        stats["calls"] = stats.get("calls", 0) + calls[0]
    return viol


def _judge_access(cell, acc, binding, conv, shift, log, v, calls):
    """one call through one convention on one access, judged against the reference twin"""
    L = lib()
    f = acc.f
    pargs, kwargs = arg_values(cell["argpat"], shift)
    args = acc.pre + pargs
    exp_bound, exp_norm, exp_out = reference(cell, binding, acc.bound, acc.pre, pargs, kwargs)
    base = base_of(cell)
    stacked = stack_of(cell)
    is_control = base == "plain"
    # how the object can actually be called (harness knowledge used only to pick the spelling of a convention)
    pure_kind = base == "pure" and not stacked
    has_sync = sync_call_runs_sync_fn(cell)
    exp_tag = "body"
    exp_runs = 1
    if cell.get("fail") and "aretry" in stacked:
        exp_runs = 2 ** stacked.count("aretry")

    D = L.D
    FutureBase = L.FutureBase
    answers = {}

    def ask(name, fn, *a, **kw):
        calls[0] += 1
        try:
            r = fn(*a, **kw)
        except Exception as e:
            v("classifier-raised", "%s raised %s: %s" % (name, type(e).__name__, str(e)[:160]))
            r = None
        answers[name] = r
        return r

    def fut_value(r, what):
        """r must be a future; returns its value (raises what the future raises)"""
        if not isinstance(r, FutureBase):
            v("not-a-future", "%s returned %r instead of a future" % (what, type(r).__name__))
            return r
        return r.value()

    def driver(mk):
        @L.asynq()
        def c09_driver():
            got = yield mk()
            return got
        return c09_driver()

    out = None
    if conv == "sync":
        p = ask("is_pure_async_fn", D.is_pure_async_fn, f)
        state = {}

        def thunk():
            calls[0] += 1
            r = f(*args, **kwargs)
            state["future"] = isinstance(r, FutureBase)
            return r.value() if state["future"] else r
        out = _outcome(thunk)
        if "future" in state and p is not None and bool(p) != state["future"]:
            v("classifier-inconsistent:is_pure_async_fn",
              "is_pure_async_fn says %r but the plain call returned a %s" % (p, "future" if state["future"] else "value"))
        if "future" in state and pure_kind and not state["future"]:
            v("not-a-future", "plain call of a pure async function returned a value, not a future")
        if has_sync:
            exp_tag = "sync"
    elif conv == "asynq_value":
        h = ask("has_async_fn", D.has_async_fn, f)
        exists = hasattr(f, "asynq")
        if exists:
            def thunk():
                calls[0] += 1
                return fut_value(f.asynq(*args, **kwargs), ".asynq(...)")
            out = _outcome(thunk)
            works = out == exp_out
        else:
            works = False
            if pure_kind or is_control:
                # no .asynq: the statement's convention for these is the call itself
                def thunk():
                    calls[0] += 1
                    r = f(*args, **kwargs)
                    return fut_value(r, "pure call") if pure_kind else r
                out = _outcome(thunk)
            else:
                v("no-asynq-attribute", "the decorated object has no .asynq attribute")
        if h is not None and bool(h) != works:
            v("classifier-inconsistent:has_async_fn",
              "has_async_fn says %r but .asynq %s" % (h, "works" if works else ("exists and misbehaves" if exists else "does not exist")))
    elif conv == "yield":
        if hasattr(f, "asynq"):
            def mk():
                calls[0] += 1
                return f.asynq(*args, **kwargs)
        elif is_control:
            def mk():
                calls[0] += 1
                return L.ConstFuture(f(*args, **kwargs))
        else:
            def mk():
                calls[0] += 1
                return f(*args, **kwargs)
        out = _outcome(lambda: driver(mk))
    elif conv == "acall_asynq":
        def thunk():
            calls[0] += 1
            return fut_value(L.async_call.asynq(f, *args, **kwargs), "async_call.asynq")
        out = _outcome(thunk)
    elif conv == "acall_sync":
        def thunk():
            calls[0] += 1
            return L.async_call(f, *args, **kwargs)
        out = _outcome(thunk)
    elif conv == "acall_yield":
        def mk():
            calls[0] += 1
            return L.async_call.asynq(f, *args, **kwargs)
        out = _outcome(lambda: driver(mk))
    elif conv in ("get_async_fn", "get_async_fn_wrap"):
        ia = ask("is_async_fn", D.is_async_fn, f)
        p = ask("is_pure_async_fn", D.is_pure_async_fn, f)
        h = ask("has_async_fn", D.has_async_fn, f)
        if conv == "get_async_fn":
            g = ask("get_async_fn", D.get_async_fn, f)
        else:
            g = ask("get_async_fn", D.get_async_fn, f, wrap_if_none=True)
        if ia is not None and bool(ia) != bool(p or h):
            v("classifier-inconsistent:is_async_fn", "is_async_fn says %r, is_pure_async_fn %r, has_async_fn %r" % (ia, p, h))
        if ia is not None and bool(ia) == is_control:
            v("classifier-inconsistent:is_async_fn", "is_async_fn says %r for %s" % (ia, "a plain callable" if is_control else "an async callable"))
        if g is None:
            if conv == "get_async_fn_wrap" or not is_control:
                v("classifier-inconsistent:get_async_fn", "get_async_fn returned None (is_async_fn says %r)" % (ia,))
            # control: nothing async to call; the convention degenerates to the plain call
            def thunk():
                calls[0] += 1
                return f(*args, **kwargs)
            out = _outcome(thunk)
        else:
            if is_control and conv == "get_async_fn":
                v("classifier-inconsistent:get_async_fn", "get_async_fn returned %r for a plain callable" % (g,))
            if conv == "get_async_fn_wrap" and is_control:
                pw = ask("is_pure_async_fn(wrapper)", D.is_pure_async_fn, g)
                if pw is not True:
                    v("classifier-inconsistent:get_async_fn", "wrap_if_none wrapper is not classified as pure async")

            def thunk():
                calls[0] += 1
                return fut_value(g(*args, **kwargs), "get_async_fn(f)(...)")
            out = _outcome(thunk)
    elif conv == "get_async_or_sync_fn":
        ia = ask("is_async_fn", D.is_async_fn, f)
        g = ask("get_async_or_sync_fn", D.get_async_or_sync_fn, f)
        if g is None:
            v("classifier-inconsistent:get_async_or_sync_fn", "get_async_or_sync_fn returned None")
            g = f
        if not ia and g is not f:
            v("classifier-inconsistent:get_async_or_sync_fn", "is_async_fn is false but the source function was not returned")

        def thunk():
            calls[0] += 1
            r = g(*args, **kwargs)
            if ia:
                return fut_value(r, "get_async_or_sync_fn(f)(...)")
            if isinstance(r, FutureBase):
                v("classifier-inconsistent:get_async_or_sync_fn", "is_async_fn is false but the call returned a future")
                return r.value()
            return r
        out = _outcome(thunk)
    else:
        raise ValueError(conv)

    # ---- oracle
    if out is not None and out != exp_out:
        if out[0] == "err" and exp_out[0] == "ok":
            v("unexpected-exception", "raised %s%r, reference returns %r" % (out[1], out[2], exp_out[1]))
        elif out[0] == "ok" and exp_out[0] == "err":
            v("exception-lost", "returned %r, reference raises %s%r" % (out[1], exp_out[1], exp_out[2]))
        elif out[0] == "err":
            v("exception-mismatch", "raised %s%r, reference raises %s%r" % (out[1], out[2], exp_out[1], exp_out[2]))
        else:
            v("value-mismatch", "returned %r, reference returns %r" % (out[1], exp_out[1]))
    if out is not None:
        tags = [e[0] for e in log]
        other = "sync" if exp_tag == "body" else "body"
        if other in tags:
            v("wrong-body", "%s ran (log %r); this convention must run %s" % (
                "sync_fn" if other == "sync" else "the async body", tags, "sync_fn" if exp_tag == "sync" else "the async body"))
        mine = [e for e in log if e[0] == exp_tag]
        if len(mine) != exp_runs:
            v("body-count", "%s ran %d times, expected %d (log %r)" % (exp_tag, len(mine), exp_runs, tags))
        for e in mine[:1]:
            if e[1] is not exp_bound:
                v("wrong-bound", "body received bound object %s, expected %s" % (_short(e[1], acc), _short(exp_bound, acc)))
            if e[2] != exp_norm:
                v("wrong-args", "body received (a, b, k) = %r, reference %r" % (_safe(e[2], acc), exp_norm))


def _short(o, acc):
    if o is None:
        return "None"
    for k, n in acc.keep or ():
        if o is k:
            return n
    if isinstance(o, type):
        return "<class %s>" % o.__name__
    return "<%s>" % type(o).__name__ if not isinstance(o, str) else repr(o)


def _safe(t, acc):
    return tuple(x if isinstance(x, str) else _short(x, acc) for x in t)


# ----------------------------------------------------------------------------------------------------------------
# product enumeration


def stacks(tier):
    if tier != "thorough":
        return []
    return [(a, b) for a in WRAPPERS for b in WRAPPERS]


def sync_stacks():
    """one wrapper over a sync_fn pair, a pure async function or an async_proxy (both tiers)"""
    return [(base, w) for base in STACK_BASES for w in WRAPPERS]


def history_pairs():
    """every ordered pair of bindings of one descriptor kind (including the same binding twice)"""
    out = []
    for kind in ("func", "m", "cm", "sm"):
        bs = HISTORY_BINDINGS[kind]
        out += [(a, b) for a in bs for b in bs]
    return out


def groups(tier):
    """(deco, base, stack, fail) groups in simplest-first order"""
    out = [(d, None, None, False) for d in DECOS]
    out += [("stack", base, (w,), False) for base, w in sync_stacks()]
    if tier == "thorough":
        out += [(d, None, None, True) for d in DECOS]
        out += [("stack", base, (w,), True) for base, w in sync_stacks()]
        out += [("stack", None, s, False) for s in stacks(tier)]
        out += [("stack", None, s, True) for s in stacks(tier)]
    return out


def history_groups(tier):
    out = [(d, None, None, False) for d in DECOS]
    if tier == "thorough":
        out += [("stack", base, (w,), False) for base, w in sync_stacks()]
        out += [(d, None, None, True) for d in DECOS]
    return out


def cells_of(job):
    convs2 = job.get("convs2") or [None]
    for argpat in ARGPATS:
        for body in BODIES:
            for conv in CONVS:
                for conv2 in convs2:
                    c = {"deco": job["deco"], "binding": job["binding"], "argpat": argpat, "body": body, "conv": conv}
                    if job.get("fail"):
                        c["fail"] = True
                    if job.get("stack"):
                        c["stack"] = list(job["stack"])
                    if job.get("base"):
                        c["base"] = job["base"]
                    if job.get("binding2"):
                        c["binding2"] = job["binding2"]
                        if conv2 and conv2 != conv:
                            c["conv2"] = conv2
                    yield c


def jobs(tier, seed):
    for deco, base, stack, fail in groups(tier):
        for binding in BINDINGS:
            yield {"deco": deco, "base": base, "stack": list(stack) if stack else None, "fail": fail, "binding": binding}
    for deco, base, stack, fail in history_groups(tier):
        for b1, b2 in history_pairs():
            j = {"deco": deco, "base": base, "stack": list(stack) if stack else None, "fail": fail, "binding": b1, "binding2": b2}
            if tier == "thorough":
                j["convs2"] = CONVS
            yield j


def run(job, env):
    hb = env["hb"]
    out = {"evals": 0, "states": 0, "transitions": 0, "nontrivial": 0, "violations": [], "samples": [], "counters": {}}
    cnt = out["counters"]
    stats = {}
    first_build = env["build"] == BUILDS[0]
    i = 0
    for cell in cells_of(job):
        i += 1
        if i % 32 == 0:
            hb[0] = time.time()
            hb[2] = i
        why = skip_reason(cell)
        if why:
            cnt["skipped: " + why] = cnt.get("skipped: " + why, 0) + 1
            continue
        viol = run_cell(cell, stats)
        if viol is None:
            for r in stats.pop("rejected"):
                cnt["stack rejected at decoration time: " + r] = cnt.get("stack rejected at decoration time: " + r, 0) + 1
            continue
        out["evals"] += 1
        if first_build:
            out["states"] += 1
        if has_bound(cell["binding"]):
            out["nontrivial"] += 1
        if cell.get("binding2"):
            key = "cells:access history"
        elif cell.get("base"):
            key = "cells:wrapper over " + cell["base"]
        else:
            key = "cells:" + ("stack" if cell.get("stack") else cell["deco"])
        cnt[key] = cnt.get(key, 0) + 1
        if cell.get("fail"):
            cnt["cells with failing body"] = cnt.get("cells with failing body", 0) + 1
        for sig, msg in viol:
            cnt["viol:" + sig] = cnt.get("viol:" + sig, 0) + 1
            if len(out["violations"]) < 40:
                out["violations"].append({"sig": sig, "msg": msg, "features": features(cell), "case": cell})
        if (not out["samples"] and has_bound(cell["binding"]) and cell["conv"] == "yield" and cell["argpat"] == "mixed"
                and cell["deco"] != "plain" and cell["body"] == "batch"):
            out["samples"].append(dict(cell))
    out["transitions"] = stats.get("calls", 0)
    return out


def replay(case, env):
    cell = dict(case)
    if "job" in cell and "deco" not in cell:  # watchdog case (hang / worker-died): re-run the whole job
        res = run(cell["job"], env)
        return res["violations"]
    return [{"sig": sig, "msg": msg, "features": features(cell), "case": cell} for sig, msg in run_cell(cell) or []]


def finish(acc, tier):
    rejected = sorted(k.split(": ", 1)[1] for k in acc.counters if k.startswith("stack rejected at decoration time: "))
    return {"bounds": {
        "stacks the library refuses to build (TypeError/AttributeError at decoration time; recorded, not judged)": rejected,
        "decorators": DECOS, "bindings": BINDINGS, "argument patterns": {k: repr(v) for k, v in ARGPATS.items()},
        "bodies": BODIES, "conventions": CONVS,
        "wrappers over sync_fn pairs / pure / async_proxy": ["%s over %s" % (w, base) for base, w in sync_stacks()],
        "access histories (ordered pairs of bindings on one class hierarchy)": ["%s then %s" % p for p in history_pairs()],
        "access histories: decorators": [g[0] if not g[1] else "%s over %s" % (g[2][0], g[1]) for g in history_groups(tier) if not g[3]],
        "access histories: conventions": "every (first, second) convention pair" if tier == "thorough" else "same convention for both accesses",
        "failing bodies": tier == "thorough",
        "stacks of two wrappers over asynq()": ["%s over %s" % (b, a) for a, b in stacks(tier)] or "thorough tier only",
        "skipped (unsupported by documentation / assert-guarded / outside the quantifier)": SKIPPED,
    }}
