"""C05 - each batch is flushed once, highest priority first; every item is answered"""
from .. import gen, progx

ID = "C05"
BUILDS = ("pure", "compiled")
RULE = "every base program up to size n with every placement of <=k deviations (third kind, item error/unset, flush bodies that raise/skip/create items/synchronously re-enter the scheduler, items never awaited, synchronous nested waits, out-of-band item.value(), shared tasks), under steered priorities (every total order at every decision), the default (0,len) priority and an all-equal user override, both builds; non-trivial = program with a >=2-way flush decision"
EXPLANATION = "stateless DFS over every flush schedule of every program on the real scheduler (both builds); each execution checked by online monitors and lock-step reference models (R1 sequential evaluator, R2 maximal-batching machine, R3 context model)"
ASSUMPTIONS = [
    "values are opaque tokens; task bodies have no side effects besides the harness record",
    "exhaustive only within the alphabet and bounds listed in coverage.bounds",
]
MENU = ["item:c", "item:err", "item:errf", "item:unset", "flush:raise", "flush:raiseB", "flush:new", "flush:setraise", "flush:nested", "flush:hooknested", "flush:fcancel", "flush:setfcancel", "ins:mkitem", "ins:sync", "ins:iv", "ins:cancel", "leaf:re", "leaf:sh", "wrap:try"]
CATS = ["flush-twice", "flush-empty", "flush-flushed", "flush-active", "flush-after-complete", "not-max-priority", "flush-outside-scheduler", "steer-ignored", "events-bracket", "item-computed-twice", "item-outside-flush", "outcome-mismatch", "r2-menu", "hang", "worker-died"]
_ALLP = {"prio": ["steer", "default", "equal"]}
LADDER = {"quick": [(5, 0, ["call"], _ALLP), (4, 1, ["call"], _ALLP), (3, 2, ["call"])],
          "thorough": [(6, 0, ["call"], _ALLP), (5, 1, ["call"], _ALLP), (4, 2, ["call"]), (2, 3, ["call"])]}
SPEC = {"r1": True, "r2": True}


def jobs(tier, seed):
    for j in progx.ladder_jobs(LADDER[tier], MENU, CATS, SPEC):
        yield j
    # shape family over items of two (thorough: three) kinds: every nesting of tuple/list/dict in one yield; an item the
    # scheduler does not see as a dependency would be computed by unwrap(), i.e. flushed from inside the task
    leaves = (gen.IA, gen.IB) if tier == "quick" else (gen.IA, gen.IB, ("i", "c", "ok"))
    m = 16 if tier == "quick" else 64
    for i in range(m):
        j = {"shape_slice": [i, m, tier], "shape_leaves": leaves, "menu": [], "k": 0, "convs": ["call"], "cats": CATS}
        j.update(SPEC)
        j.update(_ALLP)
        yield j


worker_init = progx.worker_init


def run(job, env):
    return progx.run_spec(job, env)


def replay(case, env):
    return progx.replay_case(case, env)


def finish(acc, tier):
    return {"bounds": {"ladder (size<=n, deviations<=k, conventions)": LADDER[tier], "menu": MENU, "categories judged": CATS,
                       "shape family": "one yield of every tuple/list/dict of arity 0..3 whose elements are items of 2 (thorough 3) kinds or containers of arity 0..2 of them"}}
