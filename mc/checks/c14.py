"""C14 - collection helpers equal their built-in counterparts, in one batching round.

PRODX: the whole bounded input space is enumerated on the REAL helpers of asynq.tools; every cell is
compared with the built-in on the same input (same element objects, fresh iterable of the same kind).

    cell  = (helper, call form, iterable kind, key/predicate kind, blocking?, reverse?, input sequence)
    calls = every cell is executed as helper(...), helper.asynq(...).value() and (sequences up to
            YIELD_MAXLEN elements) `yield helper.asynq(...)` from inside an @asynq task.

Element tokens (JSON-able): 0, 1, 2, "N" (None), "U" (a fresh Unorderable(key=0) object per position:
no ordering, identity equality, so stability and element identity are observable).
"""
import itertools
import time

ID = "C14"
ENGINE = "PRODX"
BUILDS = ("pure", "compiled")
RULE = ("every sequence over {0,1,2,None,Unorderable(key)} of length <=4 (quick) / <=6 (thorough) "
        "x iterable kind {list,tuple,generator,list-iterator} x key/predicate {identity, "
        "grouping key with ties between unorderable values, raising on element 2} x {plain @asynq function, @asynq "
        "function blocking on a harness batch item}, plus key omitted / key=None / function None where the built-in "
        "allows it, reverse on/off for asorted, amax/amin call forms {single iterable, varargs (0 args, 1 non-iterable "
        "arg, >=2 args), unknown keyword}; aretry: every failure script over {listed, subclass of listed, listed only "
        "in the tuple form, unlisted} of length <=4 x max_tries 1..4 x {class, tuple of classes} x body blocking or "
        "not, sleep=0. Every cell is called as helper(...), helper.asynq(...).value() and (sequences of length <=4) "
        "`yield helper.asynq(...)` inside an @asynq task. Oracle: result == built-in result with the same element objects at the same positions, "
        "same exception type when the built-in raises, input list not mutated, with a blocking key exactly one flush "
        "of the harness batch carrying one item per element; aretry body runs exactly as often as the table-driven "
        "reference says (min(k+1, max_tries); unlisted re-raised at once). non-trivial = cells with >=2 elements or an "
        "exceptional outcome (aretry: at least one failing attempt)")
EXPLANATION = "exhaustive enumeration of a bounded input space on the real helpers, each cell compared with the built-in counterpart and a flush-counting harness batch"
ASSUMPTIONS = [
    "the synchronous equivalent of an async key/predicate is the plain function computing the same value",
    "exception types are compared with `is`; messages and the failing element are not compared",
    "`default=` of max/min, afilterfalse(None, ...) and positional key/reverse of sorted are not offered by asynq and are outside the alphabet",
    "a raising key that blocks raises after its batch item was answered, so the single flush still carries one item per element",
]
TECHNIQUE = "exhaustive finite product over inputs and call forms on the real objects vs the built-in as reference"

ALPHA = (0, 1, 2, "N", "U")
ALPHA_LONG = ALPHA  # thorough, lengths 5 and 6: the full alphabet fits the time budget (measured ~5 min)
MAXLEN = {"quick": 4, "thorough": 6}
YIELD_MAXLEN = {"quick": 4, "thorough": 4}
KINDS = ("list", "tuple", "gen", "iter")
ONESHOT = ("gen", "iter")
SEMS = ("ident", "grp", "raise2")
# syncblock: the key first makes a plain synchronous call of another (non-blocking) @asynq function - a nested wait that
# must not flush anything - and then blocks on its batch item
# fmeth: the key is a bound @asynq method of an object whose truth value is False (empty container-like object)
# retryblock: an aretry-wrapped key whose first attempt per element raises a listed exception BEFORE issuing its batch
# request; the retries must still share a single flush
BLOCKS = ("plain", "block", "syncblock", "fmeth", "retryblock")
HELPERS = ("amap", "afilter", "afilterfalse", "asift", "asorted", "amax", "amin")
CHUNK = {"amap": 60, "afilter": 60, "afilterfalse": 60, "asift": 60, "asorted": 25, "amax": 25, "amin": 25}
RETRY_LETTERS = "LSMX"
RETRY_MAXK = 4
RETRY_TRIES = (1, 2, 3, 4)
MAX_VIOL_PER_KEY = 4


def alphabet(length, tier):
    return ALPHA_LONG if length > 4 else ALPHA


def jobs(tier, seed):
    yield {"part": "retry"}
    for length in range(MAXLEN[tier] + 1):
        total = len(alphabet(length, tier)) ** length
        for h in HELPERS:
            step = CHUNK[h]
            for lo in range(0, total, step):
                yield {"part": "coll", "helper": h, "len": length, "lo": lo, "hi": min(total, lo + step)}


# ------------------------------------------------------------------------------------------------------
# cell specs (pure data, JSON-able)


def cell_specs(helper):
    """all (form, kind, sem, block, reverse) combinations of one helper, simplest first"""
    out = []
    if helper in ("amap", "afilter", "afilterfalse", "asift"):
        for kind in KINDS:
            if helper == "afilter":
                out.append({"helper": helper, "form": "fn", "kind": kind, "sem": "fnone", "block": "plain", "reverse": 0})
            for sem in SEMS:
                for block in BLOCKS:
                    out.append({"helper": helper, "form": "fn", "kind": kind, "sem": sem, "block": block, "reverse": 0})
    elif helper == "asorted":
        for kind in KINDS:
            for reverse in (0, 1):
                for sem in ("nokey", "keynone"):
                    out.append({"helper": helper, "form": "single", "kind": kind, "sem": sem, "block": "plain", "reverse": reverse})
                for sem in SEMS:
                    for block in BLOCKS:
                        out.append({"helper": helper, "form": "single", "kind": kind, "sem": sem, "block": block, "reverse": reverse})
    else:  # amax / amin
        keyk = [("nokey", "plain"), ("keynone", "plain")] + [(s, b) for s in SEMS for b in BLOCKS]
        for kind in KINDS:
            for sem, block in keyk:
                out.append({"helper": helper, "form": "single", "kind": kind, "sem": sem, "block": block, "reverse": 0})
        for sem, block in keyk:
            out.append({"helper": helper, "form": "varargs", "kind": "args", "sem": sem, "block": block, "reverse": 0})
        for kind in ("list", "gen"):
            for sem, block in keyk:
                out.append({"helper": helper, "form": "badkw", "kind": kind, "sem": sem, "block": block, "reverse": 0})
    return out


def stage_n(spec, n):
    """number of per-element calls the helper must issue (together) for an input of n elements"""
    if spec["sem"] in ("nokey", "keynone", "fnone"):
        return 0
    if spec["form"] == "badkw":
        return 0
    if spec["form"] == "varargs":
        return n if n >= 2 else 0
    return n


def features(spec, conv=None):
    f = ["helper:" + spec["helper"], "form:" + spec["form"], "iter:" + spec["kind"], "key:" + spec["sem"],
         "block:" + spec["block"]]
    if spec["kind"] in ONESHOT:
        f.append("oneshot")
    if spec["reverse"]:
        f.append("reverse")
    if conv:
        f.append("conv:" + conv)
    return f


# ------------------------------------------------------------------------------------------------------
# runtime (needs asynq: built lazily inside workers)

_rt = None


def _runtime():
    global _rt
    if _rt is None:
        _rt = _Runtime()
    return _rt


class _Runtime(object):
    def __init__(self):
        import asynq
        import asynq.scheduler as sched
        import asynq.profiler as profiler
        import asynq.tools as tools
        import asynq.batching as batching
        from asynq import BatchBase, BatchItemBase
        from asynq import asynq as deco

        rt = self
        self.active = None
        self.flushes = []  # number of items of every flush of the harness batch
        self.calls = []  # elements passed to the async key/predicate, in call order
        self.body_runs = 0

        class CBatch(BatchBase):
            def _try_switch_active_batch(self):
                if rt.active is self:
                    rt.active = None

            def _flush(self):
                rt.flushes.append(len(self.items))
                for it in self.items:
                    it.set_value(None)

        class CItem(BatchItemBase):
            def __init__(self):
                b = rt.active
                if b is None:
                    b = rt.active = CBatch()
                BatchItemBase.__init__(self, b)

        class HErr(Exception):
            pass

        class Unorderable(object):
            """no ordering, identity equality; `key` is what the grouping key function reads"""
            __slots__ = ("key", "pos")

            def __init__(self, key, pos):
                self.key = key
                self.pos = pos

            def __repr__(self):
                return "U#%d" % self.pos

        self.HErr = HErr
        self.Unorderable = Unorderable
        self.CItem = CItem

        def ident(x):
            return x

        def grp(x):
            # 0,2,U -> 0 ; 1,None -> 1 : ties between values that cannot be ordered among themselves
            if x.__class__ is Unorderable:
                return x.key
            if x is None:
                return 1
            return x % 2

        def raise2(x):
            if x.__class__ is int and x == 2:
                raise HErr("designated element")
            return grp(x)

        self.sync = {"ident": ident, "grp": grp, "raise2": raise2}
        self.akey = {}
        for name, f in self.sync.items():
            self.akey[(name, "plain")] = self._plain(deco, f)
            self.akey[(name, "block")] = self._blocking(deco, f, CItem)
            self.akey[(name, "syncblock")] = self._blocking(deco, f, CItem, True)
            self.akey[(name, "fmeth")] = self._falsy_method(deco, f)
            self.akey[(name, "retryblock")] = self._retry_blocking(deco, f, CItem)

        @deco()
        def outer(helper, args, kwargs):
            return (yield helper.asynq(*args, **kwargs))

        self.outer = outer
        self.helpers = {h: getattr(tools, h) for h in HELPERS}
        self.aretry = tools.aretry
        self.deco = deco

        def partition(pred, items):
            yes, no = [], []
            for x in items:
                if pred(x):
                    yes.append(x)
                else:
                    no.append(x)
            return (yes, no)

        self.builtin = {
            "amap": lambda f, it: list(map(f, it)),
            "afilter": lambda f, it: list(filter(f, it)),
            "afilterfalse": lambda f, it: list(itertools.filterfalse(f, it)),
            "asift": partition,
            "asorted": sorted,
            "amax": max,
            "amin": min,
        }

        dedup = tools.DeduplicateDecorator.tasks
        dbs = batching._debug_batch_state

        def reset():
            sched.reset()
            profiler.reset()
            dedup.clear()
            dbs.batches.clear()
            rt.active = None
            rt.flushes = []
            rt.calls = []
            rt.retry_seen = set()

        self.reset = reset

        # aretry bodies --------------------------------------------------------------------------
        class Listed(Exception):
            pass

        class SubListed(Listed):
            pass

        class Listed2(Exception):
            pass

        class Unlisted(Exception):
            pass

        self.retry_exc = {"L": Listed, "S": SubListed, "M": Listed2, "X": Unlisted}
        self.retry_cls = {"single": Listed, "tuple": (Listed, Listed2)}
        self.retry_listed = {"single": {"L": True, "S": True, "M": False, "X": False},
                             "tuple": {"L": True, "S": True, "M": True, "X": False}}

    def _plain(self, deco, f):
        rt = self

        @deco()
        def key(x):
            rt.calls.append(x)
            return f(x)

        return key

    def _retry_blocking(self, deco, f, CItem):
        rt = self
        from asynq.tools import aretry

        class RetryMe(Exception):
            pass

        @deco()
        def attempt(x):
            k = id(x)
            if k not in rt.retry_seen:
                rt.retry_seen.add(k)
                raise RetryMe("first attempt for this element fails before any request is issued")
            rt.calls.append(x)
            yield CItem()
            return f(x)

        return aretry(RetryMe, max_tries=3, sleep=0)(attempt)

    def _falsy_method(self, deco, f):
        rt = self

        class EmptyHost(object):
            def __len__(self):
                return 0

            @deco()
            def key(self, x):
                assert isinstance(self, EmptyHost), "bound instance lost"
                rt.calls.append(x)
                return f(x)

        host = EmptyHost()
        self.keep_hosts = getattr(self, "keep_hosts", []) + [host]
        return host.key

    def _blocking(self, deco, f, CItem, sync_first=False):
        rt = self

        @deco()
        def helper_noop(x):
            return x

        @deco()
        def key(x):
            rt.calls.append(x)
            if sync_first:
                helper_noop(x)  # synchronous re-entry that needs no flush
            yield CItem()
            return f(x)

        return key

    # -------------------------------------------------------------------------------------------
    def elems(self, seq):
        out = []
        for pos, t in enumerate(seq):
            if t == "N":
                out.append(None)
            elif t == "U":
                out.append(self.Unorderable(0, pos))
            else:
                out.append(t)
        return out

    @staticmethod
    def iterable(kind, elems):
        if kind == "list":
            return list(elems)
        if kind == "tuple":
            return tuple(elems)
        if kind == "gen":
            return (e for e in elems)
        if kind == "iter":
            return iter(list(elems))
        raise ValueError(kind)

    def arguments(self, spec, elems, side):
        """(args, kwargs, the iterable object passed or None); side 'a' = async key, 's' = sync key"""
        sem = spec["sem"]
        if sem in ("nokey", "keynone", "fnone"):
            fn = None
        elif side == "a":
            fn = self.akey[(sem, spec["block"])]
        else:
            fn = self.sync[sem]
        form = spec["form"]
        if form == "fn":
            it = self.iterable(spec["kind"], elems)
            return (fn, it), {}, it
        kwargs = {}
        if sem != "nokey":
            kwargs["key"] = fn
        if spec["reverse"]:
            kwargs["reverse"] = True
        if form == "varargs":
            return tuple(elems), kwargs, None
        it = self.iterable(spec["kind"], elems)
        if form == "badkw":
            kwargs["bogus"] = 1
        return (it,), kwargs, it

    def expected(self, spec, elems):
        args, kwargs, _ = self.arguments(spec, elems, "s")
        try:
            return ("ok", self.builtin[spec["helper"]](*args, **kwargs))
        except Exception as e:
            return ("err", type(e))

    def call(self, fn, conv, args, kwargs):
        self.reset()
        try:
            if conv == "call":
                v = fn(*args, **kwargs)
            elif conv == "value":
                v = fn.asynq(*args, **kwargs).value()
            elif conv == "yield":
                v = self.outer(fn, args, kwargs)
            else:
                raise ValueError(conv)
            return ("ok", v)
        except Exception as e:
            return ("err", type(e))


def _equal(a, b):
    """same container types, == on leaves"""
    if a.__class__ is not b.__class__:
        return False
    if a.__class__ in (list, tuple):
        return len(a) == len(b) and all(_equal(x, y) for x, y in zip(a, b))
    return a == b


def _identical(a, b):
    if a.__class__ in (list, tuple):
        return all(_identical(x, y) for x, y in zip(a, b))
    return a is b


def _show(x):
    if isinstance(x, tuple) and len(x) == 2 and x[0] == "err":
        return "raises %s" % x[1].__name__
    if isinstance(x, tuple) and len(x) == 2 and x[0] == "ok":
        return "returns %r" % (x[1],)
    return repr(x)


def _call_text(spec, seq, conv):
    toks = ", ".join("None" if t == "N" else ("U()" if t == "U" else str(t)) for t in seq)
    kind = spec["kind"]
    it = {"list": "[%s]", "tuple": "(%s,)" if len(seq) == 1 else "(%s)", "gen": "(e for e in [%s])", "iter": "iter([%s])",
          "args": "%s"}[kind] % toks
    sem = spec["sem"]
    k = {"fnone": "None", "nokey": "", "keynone": "key=None"}.get(sem, "%s_%s" % (sem, spec["block"]))
    h = spec["helper"]
    if spec["form"] == "fn":
        inner = "%s, %s" % (k, it)
    else:
        parts = [it] if (it or spec["form"] != "varargs") else []
        if sem not in ("nokey", "keynone"):
            parts.append("key=" + k)
        elif sem == "keynone":
            parts.append(k)
        if spec["reverse"]:
            parts.append("reverse=True")
        if spec["form"] == "badkw":
            parts.append("bogus=1")
        inner = ", ".join(parts)
    return {"call": "%s(%s)", "value": "%s.asynq(%s).value()", "yield": "(yield %s.asynq(%s))"}[conv] % (h, inner)


def run_cell(rt, spec, seq, convs, out, viol):
    """executes one cell under all conventions; returns (number of helper calls, nontrivial?)"""
    elems = rt.elems(seq)
    n = len(elems)
    exp = rt.expected(spec, elems)
    want_calls = stage_n(spec, n)
    blocking = spec["block"] in ("block", "syncblock", "retryblock")
    want_flush = [want_calls] if (blocking and want_calls > 0) else []
    judge_calls = spec["sem"] != "raise2" or blocking
    fn = rt.helpers[spec["helper"]]
    h = spec["helper"]
    for conv in convs:
        args, kwargs, it = rt.arguments(spec, elems, "a")
        got = rt.call(fn, conv, args, kwargs)
        flushes, calls = rt.flushes, rt.calls

        def bad(cat, msg):
            viol(h + "-" + cat, "%s with key %s/%s on %s: %s" % (_call_text(spec, seq, conv), spec["sem"], spec["block"],
                                                                   spec["kind"], msg),
                 features(spec, conv), {"part": "coll", "spec": spec, "seq": list(seq), "conv": conv})

        if exp[0] == "err" or got[0] == "err":
            if exp[0] != got[0] or exp[1] is not got[1]:
                bad("exception", "%s but the built-in %s" % (_show(got), _show(exp)))
        elif not _equal(got[1], exp[1]):
            bad("result", "%s but the built-in %s" % (_show(got), _show(exp)))
        elif not _identical(got[1], exp[1]):
            bad("identity", "returns equal values but not the same element objects as the built-in (%r)" % (got[1],))
        if flushes != want_flush:
            bad("flush", "harness batch flushed %d time(s) with item counts %r, expected %r (one flush, one item per element)"
                % (len(flushes), flushes, want_flush))
        if judge_calls:
            if len(calls) != want_calls or sorted(map(id, calls)) != (sorted(map(id, elems)) if want_calls else []):
                bad("calls", "key/predicate called with %r, expected exactly one call per element of %r" % (calls, elems))
        elif len(calls) > n:
            bad("calls", "key/predicate called %d times for %d elements" % (len(calls), n))
        if it.__class__ is list and not (len(it) == n and all(x is y for x, y in zip(it, elems))):
            bad("mutated-input", "input list changed to %r" % (it,))
    return len(convs), (n >= 2 or exp[0] == "err")


# ------------------------------------------------------------------------------------------------------
# aretry


def retry_expect(script, max_tries, listed):
    """table-driven reference: (number of body runs, outcome letter or None for success)"""
    runs = 0
    for i in range(max_tries):
        runs += 1
        if i >= len(script):
            return runs, None
        if not listed[script[i]]:
            return runs, script[i]
        if i + 1 == max_tries:
            return runs, script[i]
    raise AssertionError("max_tries < 1")


def run_retry_cell(rt, script, max_tries, form, block, convs, out, viol):
    listed = rt.retry_listed[form]
    want_runs, want_letter = retry_expect(script, max_tries, listed)
    nlisted = 0
    for c in script:
        if not listed[c]:
            break
        nlisted += 1
    if nlisted == len(script) or nlisted >= max_tries:
        # the statement's formula, when the first k attempts raise a listed exception
        assert want_runs == min(nlisted + 1, max_tries), (script, max_tries, want_runs)
    elif script and not listed[script[0]]:
        assert want_runs == 1
    excs = rt.retry_exc
    CItem = rt.CItem
    state = {"runs": 0}
    if block == "block":
        def body(a, b=None):
            i = state["runs"]
            state["runs"] = i + 1
            yield CItem()
            if i < len(script):
                raise excs[script[i]]("attempt %d" % i)
            return ("ret", a, b, i)
    else:
        def body(a, b=None):
            i = state["runs"]
            state["runs"] = i + 1
            if i < len(script):
                raise excs[script[i]]("attempt %d" % i)
            return ("ret", a, b, i)
    fn = rt.aretry(rt.retry_cls[form], max_tries=max_tries, sleep=0)(rt.deco()(body))
    for conv in convs:
        state["runs"] = 0
        got = rt.call(fn, conv, (7,), {"b": 8})
        flushes = rt.flushes
        runs = state["runs"]
        feats = ["helper:aretry", "form:" + form, "block:" + block, "conv:" + conv, "max_tries:%d" % max_tries,
                 "script:" + (script or "-")]
        if any(not listed[c] for c in script[:max_tries]):
            feats.append("unlisted")
        case = {"part": "retry", "script": script, "max_tries": max_tries, "form": form, "block": block, "conv": conv}
        text = "aretry(%s, max_tries=%d, sleep=0) [%s, body %s] with attempts failing %r" % (
            "Listed" if form == "single" else "(Listed, Listed2)", max_tries, conv, block, list(script))
        if runs != want_runs:
            viol("aretry-runs", "%s: body ran %d time(s), expected %d" % (text, runs, want_runs), feats, case)
        if want_letter is None:
            want = ("ok", ("ret", 7, 8, len(script)))
        else:
            want = ("err", excs[want_letter])
        if got[0] != want[0] or (got[0] == "err" and got[1] is not want[1]) or (got[0] == "ok" and got[1] != want[1]):
            viol("aretry-outcome", "%s: %s, expected %s" % (text, _show(got), _show(want).replace("returns", "to return").replace("raises", "to raise")),
                 feats, case)
        want_flush = [1] * runs if block == "block" else []
        if flushes != want_flush:
            viol("aretry-flush", "%s: harness flush item counts %r for %d body runs" % (text, flushes, runs), feats, case)
    return len(convs), bool(script)


def retry_scripts():
    for k in range(RETRY_MAXK + 1):
        for s in itertools.product(RETRY_LETTERS, repeat=k):
            yield "".join(s)


# ------------------------------------------------------------------------------------------------------
# worker entry points


def worker_init(env):
    from .. import progx
    progx.worker_init(env)
    _runtime()


def _new_out():
    return {"evals": 0, "states": 0, "transitions": 0, "nontrivial": 0, "violations": [], "samples": [],
            "counters": {}, "sets": {}}


def _viol_sink(out):
    seen = {}

    def viol(sig, msg, feats, case):
        key = (sig, tuple(f for f in feats if not f.startswith(("script:", "max_tries:"))))
        c = seen.get(key, 0) + 1
        seen[key] = c
        out["counters"]["violating_calls"] = out["counters"].get("violating_calls", 0) + 1
        if c <= MAX_VIOL_PER_KEY:
            out["violations"].append({"sig": sig, "msg": msg, "features": feats, "case": case})
        else:
            out["counters"]["violations_not_listed"] = out["counters"].get("violations_not_listed", 0) + 1

    return viol


def run(job, env):
    rt = _runtime()
    hb = env["hb"]
    tier = env["tier"]
    out = _new_out()
    cnt = out["counters"]
    viol = _viol_sink(out)
    if job["part"] == "retry":
        for script in retry_scripts():
            hb[0] = time.time()
            for max_tries in RETRY_TRIES:
                for form in ("single", "tuple"):
                    for block in BLOCKS:
                        calls, nt = run_retry_cell(rt, script, max_tries, form, block, ("call", "value", "yield"), out, viol)
                        out["evals"] += 1
                        out["transitions"] += calls
                        out["nontrivial"] += 1 if nt else 0
                        cnt["cells_aretry"] = cnt.get("cells_aretry", 0) + 1
        cnt["cells"] = cnt.get("cells", 0) + out["evals"]
        out["samples"].append({"helper": "aretry", "script": "LLX", "max_tries": 4, "form": "tuple", "block": "block"})
        return out
    helper = job["helper"]
    length = job["len"]
    specs = cell_specs(helper)
    convs = ("call", "value", "yield") if length <= YIELD_MAXLEN[tier] else ("call", "value")
    seqs = itertools.islice(itertools.product(alphabet(length, tier), repeat=length), job["lo"], job["hi"])
    idx = job["lo"]
    for seq in seqs:
        hb[0] = time.time()
        hb[2] = idx
        idx += 1
        for spec in specs:
            if spec["form"] == "badkw" and length > 2:
                continue  # the unknown keyword is rejected before the input is looked at: short inputs only
            calls, nt = run_cell(rt, spec, seq, convs, out, viol)
            out["evals"] += 1
            out["transitions"] += calls
            if nt:
                out["nontrivial"] += 1
            cnt["cells_" + helper] = cnt.get("cells_" + helper, 0) + 1
    cnt["cells"] = cnt.get("cells", 0) + out["evals"]
    if job["lo"] == 0 and length in (2, 4):
        out["samples"].append({"helper": helper, "spec": specs[-1], "seq": list(alphabet(length, tier)[:length])})
    return out


def replay(case, env):
    rt = _runtime()
    out = _new_out()
    viol = _viol_sink(out)
    if case.get("part") == "retry":
        run_retry_cell(rt, case["script"], case["max_tries"], case["form"], case["block"], (case.get("conv", "call"),), out, viol)
    else:
        convs = (case["conv"],) if case.get("conv") else ("call", "value", "yield")
        run_cell(rt, case["spec"], tuple(case["seq"]), convs, out, viol)
    return out["violations"]


def finish(acc, tier):
    # a cell is the same in both builds: "states" = distinct cells, not cells x builds
    per_build = [d["counters"].get("cells", 0) for d in acc.per_build.values()]
    distinct = max(per_build or [0])
    acc.n["states"] = distinct
    nseq = sum(len(alphabet(length, tier)) ** length for length in range(MAXLEN[tier] + 1))
    return {"states": distinct,
            "bounds": {"max sequence length": MAXLEN[tier], "alphabet": list(ALPHA),
                       "alphabet for lengths 5,6": list(ALPHA_LONG) if MAXLEN[tier] > 4 else None,
                       "sequences": nseq, "iterable kinds": list(KINDS), "key semantics": list(SEMS) + ["nokey", "keynone", "fnone"],
                       "key blocking": list(BLOCKS), "conventions": ["call", "asynq().value()", "yield (len<=%d)" % YIELD_MAXLEN[tier]],
                       "aretry": {"script letters": RETRY_LETTERS, "max failing attempts": RETRY_MAXK, "max_tries": list(RETRY_TRIES)},
                       "unknown-keyword form": "sequences of length <= 2"}}
