"""C16 - computations on different threads never interfere."""
import time

from .. import gen

ID = "C16"
ENGINE = "THREADX"
BUILDS = ("pure", "compiled")
RULE = ("2 (quick) / 2-3 (thorough) real threads, each running one of 5 programs (DebugBatchItem tree over several rounds, "
        "deduplicated calls in the same yield and between flushes, AsyncContext + scoped override with probes, two-kind "
        "batching, nested synchronous re-entry; COLLECT_PERF_STATS on), every unordered pair (and every triple of distinct "
        "programs in thorough); ALL interleavings with <= c preemptions under a baton scheduler: coarse scheduling points = "
        "every callback from asynq into harness code (task step begin/end, flush body, get_priority, context pause/resume, "
        "flush events, item construction, deduplicated call), both builds; fine points = every executed line of asynq's own "
        "Python code (sys.settrace, pure build); thorough adds 2 preemptions over the lines of the functions that touch per-thread state. Oracle: each thread's digest (outcome, harness flush log with item ids, "
        "DebugBatch flush log, context events, probes, step counts, deduplicate body runs, profiler buffer entries, monitor "
        "alarms) equals the digest of the same program run alone, plus direct checks: get_scheduler() is this thread's, "
        "get_active_task() is the running task, no batch contains another thread's item, no deduplicated call returns another "
        "thread's task. non-trivial = schedules with at least one preemption")
EXPLANATION = "stateless model checking of real threads: iterative context bounding over baton hand-off points, digest compared with the solo run"
TECHNIQUE = "preemption-bounded exhaustive interleaving exploration of real threads (baton scheduler + sys.settrace line points) on the real library"
ASSUMPTIONS = [
    "one thread runs at a time (GIL); preemption inside a single bytecode / true parallelism is not modelled",
    "compiled build: preemption points are the callbacks into Python code (Cython code does not release the GIL in between)",
    "each thread uses its own AsyncScopedValue / harness batch service (sharing those objects across threads is outside the property)",
]

IA, IB = gen.IA, gen.IB


def _t(*st):
    return ("t", tuple(st))


def _y(s):
    return ("y", s)


def _L(*x):
    return ("L", tuple(x))


def _c(*st):
    return ("c", _t(*st))


PROGRAMS = {
    # one DebugBatch name only: two names would tie on priority and the tie-break (set order) is arbitrary by design
    "dbi": ("P", _t(_y(_L(_c(_y(("dbi", "x")), _y(("dbi", "x"))), _c(_y(("dbi", "x"))), ("dbi", "x"))), _y(("dbi", "x"))), (), ()),
    "dedup": ("P", _t(_y(_L(("dd", "f", 1, "pos"), ("dd", "f", 1, "kw"), _c(_y(IA), _y(("dd", "f", 1, "def"))))), _y(_L(("dd", "mx", 1, "pos"), ("dd", "h", 1, "pos")))), (), (("ddbody", "y2"),)),
    "ctx": ("P", _t(("with", "S0", (_y(_L(_c(("with", "A", (_y(IA), ("probe",)))), _c(("probe",), _y(IB), ("probe",)))),))), (), ()),
    "batch": ("P", _t(_y(_L(_c(_y(IA), _y(IB)), _c(_y(IB), _y(IA)))), ("probe",)), (), ()),
    "sync": ("P", _t(_y(_L(_c(("sync", _t(_y(IA)), "call"), _y(IB)), _c(_y(IB))))), (), ()),
}
NAMES = sorted(PROGRAMS)
OPTIONS = {"COLLECT_PERF_STATS": True}
CATS = ["thread-interference", "thread-state-leak", "deadlock", "hang", "worker-died"]

BOUNDS = {  # (coarse preemptions, fine preemptions, slices)
    "quick": {"coarse2": 2, "fine2": 1, "hot2": None, "coarse3": None, "slices": 4},
    "thorough": {"coarse2": 3, "fine2": 1, "hot2": 2, "coarse3": 2, "slices": 16},
}
# "hot" line-level points: only the code that touches state which must be per thread (2 preemptions are affordable there)
HOT = {"tools.py": {"cache_key", "asynq", "dirty", "callback"}, "profiler.py": None,
       "batching.py": {"__init__", "_try_switch_active_batch", "sync"},
       "scheduler.py": {"__init__", "reset", "get_scheduler", "get_active_task"},
       "async_task.py": {"__init__"}}


def jobs(tier, seed):
    b = BOUNDS[tier]
    m = b["slices"]
    pairs = [(x, y) for i, x in enumerate(NAMES) for y in NAMES[i:]]
    for x, y in pairs:
        for s in range(m):
            yield {"progs": [x, y], "mode": "coarse", "bound": b["coarse2"], "slice": [s, m]}
    # hand-off: thread 0 computes a task object that was made by yet another thread; it must behave exactly like
    # the same task made and computed on thread 0 alone (conv "av"), also next to a second computation
    for x, y in pairs:
        for s in range(m):
            yield {"progs": [x, y], "mode": "coarse", "bound": b["coarse2"], "slice": [s, m], "handoff": True}
    for x, y in pairs:
        for s in range(m):
            yield {"progs": [x, y], "mode": "fine", "bound": b["fine2"], "slice": [s, m], "only": "pure"}
    if b["hot2"] is not None:
        for x, y in pairs:
            for s in range(m):
                yield {"progs": [x, y], "mode": "hot", "bound": b["hot2"], "slice": [s, m], "only": "pure"}
    if b["coarse3"] is not None:
        trips = [(x, y, z) for i, x in enumerate(NAMES) for j, y in enumerate(NAMES) if j > i for z in NAMES[j + 1:]]
        for t in trips:
            for s in range(m):
                yield {"progs": list(t), "mode": "coarse", "bound": b["coarse3"], "slice": [s, m]}


_solo = {}


class SequentialLeak(Exception):
    pass


def _fine_spec(mode):
    import os
    import asynq
    d = os.path.dirname(os.path.realpath(asynq.__file__)) + os.sep
    if mode == "fine":
        return [d]
    if mode == "hot":
        return [(d, HOT)]
    return None


def worker_init(env):
    from .. import progx
    progx.worker_init(env)


def _setup_globals():
    from .. import world as Wd
    import asynq._debug as dbg
    import asynq.tools as tools
    for n, v in Wd._DEFAULTS.items():
        setattr(dbg.options, n, v)
    for n, v in OPTIONS.items():
        setattr(dbg.options, n, v)
    Wd.install_clock(Wd.Clock(1))
    tools.DeduplicateDecorator.tasks.clear()
    Wd.TASK_OWNER.clear()
    Wd.DBI_OWNER.clear()


def _solo_digest(name, conv="call"):
    from .. import prog as P, threadx as T
    d = _solo.get((name, conv))
    if d is None:
        _setup_globals()
        res, trace, err = T.run_concurrent([P.compile_prog(PROGRAMS[name])], (), [{"conv": conv}])
        assert err is None, err
        res2, _, _ = T.run_concurrent([P.compile_prog(PROGRAMS[name])], (), [{"conv": conv}])
        if res != res2:
            # two fresh threads running the same program ALONE, one after the other, see different things: the
            # second one observed state left behind by the first (per-thread state that is not per thread)
            keys = [k for k in res[0] if res2[0] is None or res[0][k] != res2[0].get(k)]
            raise SequentialLeak("program %s run alone on two successive fresh threads differs in %s: first %r, second %r"
                                 % (name, keys, res[0][keys[0]], res2[0][keys[0]]))
        d = _solo[(name, conv)] = res[0]
    return d


def run(job, env):
    import os
    from .. import prog as P, threadx as T
    import asynq
    out = {"evals": 0, "states": 0, "transitions": 0, "nontrivial": 0, "violations": [], "samples": [],
           "counters": {}, "sets": {}}
    if job.get("only") and job["only"] != env["build"]:
        return out
    names = job["progs"]
    progs = [P.compile_prog(PROGRAMS[n]) for n in names]
    handoff = bool(job.get("handoff"))
    cfgs = [({"conv": "handoff"} if (handoff and i == 0) else {}) for i in range(len(names))]
    try:
        solos = [_solo_digest(n, "av" if (handoff and i == 0) else "call") for i, n in enumerate(names)]
    except SequentialLeak as e:
        _viol(out, "thread-state-leak", str(e), job, ())
        out["evals"] += 2
        return out
    if any(s["viol"] for s in solos):
        out["violations"].append({"sig": "harness", "msg": "solo run raises monitor alarms: %r" % (solos,), "features": [], "case": job})
        return out
    fine = _fine_spec(job["mode"])
    hb = env["hb"]
    cnt = out["counters"]

    def on_exec(prefix, results, trace, err):
        hb[0] = time.time()
        out["evals"] += 1
        # nodes of the schedule tree first reached by this execution (the replayed prefix was counted before)
        out["states"] += 1 + max(0, len(trace) - len(prefix))
        out["transitions"] += len(trace)
        npre = sum(1 for (n, c, alive) in trace if alive and c != 0)
        if npre:
            out["nontrivial"] += 1
        cnt["max_points"] = max(cnt.get("max_points", 0), len(trace))
        if err is not None:
            sig = "deadlock" if "deadlock" in err or "horizon" in err else "harness"
            _viol(out, sig, err, job, prefix)
            return
        for i, (res, solo) in enumerate(zip(results, solos)):
            if handoff and i == 0:
                res, solo = _no_ids(res), _no_ids(solo)
            if res != solo:
                keys = [k for k in solo if res is None or res.get(k) != solo[k]]
                k0 = keys[0]
                _viol(out, "thread-interference",
                      "thread %d (%s) differs from its solo run in %s while running next to %s: solo %r, concurrent %r"
                      % (i, names[i], keys, [n for j, n in enumerate(names) if j != i], solo[k0], None if res is None else res.get(k0)),
                      job, prefix)
                break

    _setup_globals()
    n, capped = T.explore_threads(progs, cfgs, job["bound"], _wrap(on_exec), fine=fine, slice_=tuple(job["slice"]))
    cnt["schedules_" + job["mode"]] = cnt.get("schedules_" + job["mode"], 0) + out["evals"]
    if len(out["samples"]) < 1 and job["slice"][0] == 0:
        out["samples"].append({"threads": names, "mode": job["mode"], "preemption_bound": job["bound"], "schedules_in_slice": out["evals"]})
    return out


def _no_ids(d):
    """profiler entry names start with the task's serial number, which counts the tasks made by the CREATING thread:
    a task made elsewhere legitimately carries that thread's number, so for the hand-off thread names are compared
    without the serial"""
    if d is None or not d.get("prof"):
        return d
    d = dict(d)
    d["prof"] = tuple(sorted(n.split(".", 1)[1] if n[:6].isdigit() and "." in n else n for n in d["prof"]))
    return d


def _wrap(f):
    def g(prefix, results, trace, err):
        _setup_globals_light()
        f(prefix, results, trace, err)
    return g


def _setup_globals_light():
    # between executions: the deduplicate table and ownership maps are process-wide
    from .. import world as Wd
    import asynq.tools as tools
    tools.DeduplicateDecorator.tasks.clear()
    Wd.TASK_OWNER.clear()
    Wd.DBI_OWNER.clear()


def _viol(out, sig, msg, job, prefix):
    if len(out["violations"]) < 5:
        out["violations"].append({"sig": sig, "msg": msg, "features": ["mode:" + job["mode"]] + (["handoff"] if job.get("handoff") else []) + ["prog:" + n for n in job["progs"]],
                                  "case": {"job": job, "prefix": list(prefix)}})
    out["counters"]["viol:" + sig] = out["counters"].get("viol:" + sig, 0) + 1


def replay(case, env):
    import os
    from .. import prog as P, threadx as T
    import asynq
    job = case["job"]
    names = job["progs"]
    progs = [P.compile_prog(PROGRAMS[n]) for n in names]
    handoff = bool(job.get("handoff"))
    cfgs = [({"conv": "handoff"} if (handoff and i == 0) else {}) for i in range(len(names))]
    try:
        solos = [_solo_digest(n, "av" if (handoff and i == 0) else "call") for i, n in enumerate(names)]
    except SequentialLeak as e:
        return [{"sig": "thread-state-leak", "msg": str(e)}]
    fine = _fine_spec(job["mode"])
    vs = []
    for rep in range(2):
        _setup_globals()
        results, trace, err = T.run_concurrent(progs, tuple(case["prefix"]), cfgs, fine=fine)
        if err is not None:
            vs.append({"sig": "deadlock", "msg": err})
            break
        for i, (res, solo) in enumerate(zip(results, solos)):
            if handoff and i == 0:
                res, solo = _no_ids(res), _no_ids(solo)
            if res != solo:
                vs.append({"sig": "thread-interference", "msg": "thread %d (%s) differs from its solo run in %s"
                           % (i, names[i], [k for k in solo if res.get(k) != solo[k]])})
                break
    return vs[:1]


def finish(acc, tier):
    return {"bounds": dict(BOUNDS[tier], programs=NAMES, threads="2" if tier == "quick" else "2 and 3",
                           handoff="every pair again (coarse points) with thread 0 computing a task object made by a third, short-lived thread; reference: the same program made and computed on one thread alone")}
