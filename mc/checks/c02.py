"""C02 - failures propagate like sequential exceptions, after all siblings finish"""
from .. import gen, progx

ID = "C02"
BUILDS = ("pure", "compiled")
RULE = "every program of the base family up to size n with every placement of <=k fault/try deviations (raise at any statement position, item error/unset, failing flush (Exception/BaseException/after setting/public cancel(error) from the flush body), empty and None yields after a caught error, ErrorFuture, lazily computed Future ok/raising, non-future, try/except at any level, tuple/dict/nested shapes, shared tasks), every flush schedule, both builds; non-trivial = program with a >=2-way flush decision"
EXPLANATION = "stateless DFS over every flush schedule of every program on the real scheduler (both builds); each execution checked by online monitors and lock-step reference models (R1 sequential evaluator, R2 maximal-batching machine, R3 context model)"
ASSUMPTIONS = [
    "values are opaque tokens; task bodies have no side effects besides the harness record",
    "exhaustive only within the alphabet and bounds listed in coverage.bounds",
]
MENU = ["ins:raise", "ins:caught", "item:err", "item:errf", "item:unset", "flush:raise", "flush:raiseB", "flush:setraise", "flush:fcancel", "flush:fcancelraise", "flush:setfcancel", "leaf:ef", "leaf:lzok", "leaf:lzraise", "leaf:nf", "wrap:try", "shape:T", "shape:D", "shape:nest", "leaf:sh"]
CATS = ["outcome-mismatch", "error-identity", "resumed-uncomputed", "nonfuture-typeerror", "spurious-error", "schedule-disagree", "value-shape", "started-missing", "provider-ran-twice", "hang", "worker-died"]
# what a task does after it has caught an error: yields that carry no future at all, more errors, more handlers
_AFTER = {"menu": ["ins:caught", "wrap:try", "item:err", "leaf:ef", "ins:raise", "ins:yempty", "ins:ynone", "leaf:n"]}
LADDER = {"quick": [(4, 1, ["call"]), (3, 2, ["call", "av"]), (2, 3, ["call"]), (3, 2, ["call"], _AFTER)],
          "thorough": [(5, 1, ["call"]), (4, 2, ["call", "av"]), (3, 3, ["call"]), (4, 2, ["call"], _AFTER), (2, 3, ["call"], _AFTER)]}
SPEC = {"r1": True, "r2": True}


def jobs(tier, seed):
    for j in progx.ladder_jobs(LADDER[tier], MENU, CATS, SPEC):
        yield j
    # shape family: one task yielding one structure, every shape (depth 2, arity <= 3) over leaves that succeed or
    # fail: decides "first failing future in structure order wins" with several failures per structure
    m = 96 if tier == "quick" else 512
    for i in range(m):
        j = {"shape_slice": [i, m, tier], "menu": [], "k": 0, "convs": ["call"], "cats": CATS}
        j.update(SPEC)
        yield j


worker_init = progx.worker_init


def run(job, env):
    return progx.run_spec(job, env)


def replay(case, env):
    return progx.replay_case(case, env)


def finish(acc, tier):
    return {"bounds": {"ladder (size<=n, deviations<=k, conventions)": LADDER[tier], "menu": MENU, "categories judged": CATS,
                       "shape family": "every tuple/list/dict of arity 0..3 whose elements are leaves or containers of arity 0..2, leaves %r" % (gen.SHAPE_LEAVES[tier],)}}
