"""C10 - a future is completed at most once and reports one consistent outcome (HISTX, reference machine R4)."""
from .. import histx
from ..histx import HErr, Val, Tokens, call

ID = "C10"
ENGINE = "HISTX"
BUILDS = ("pure", "compiled")
TECHNIQUE = "explicit-state BFS over operation histories on the real objects vs reference state machine"
KINDS = ["fut_ret", "fut_raise", "const", "errfut", "at0_ret", "at0_raise", "at1_ret", "at1_raise",
         "batch_ok", "batch_raise", "item_ok", "item_err",
         # the same failing kinds with an error whose truth value is False (an error must be recognised by `is not None`)
         # AsyncTasks that can be completed from outside while suspended at their yield: the yield inside try/finally
         # with a clean finally (control), a finally that raises, a body that swallows GeneratorExit and yields again
         "at1s_clean", "at1s_finraise", "at1s_swallow",
         "fut_raise_falsy", "errfut_falsy", "at0_raise_falsy", "at1_raise_falsy", "batch_raise_falsy", "item_err_falsy"]
OPS = [("value",), ("error",), ("call",), ("is_computed",), ("set_value", "v1"), ("set_value", "v2"),
       ("set_error", "e1"), ("set_error", "e2"), ("reset_unsafe",), ("sub", "good"), ("sub", "bad"),
       ("sub", "oneshot")]  # oneshot: a well-behaved callback that unsubscribes itself when notified
# a task awaits the future through the scheduler: `yield f` / `yield f, f` (the future is on the scheduler's stack twice)
AWAIT = [("await", 1), ("await", 2)]
# an external completion (e.g. a cancellation) reaches the task WHILE ITS GENERATOR IS SUSPENDED at a yield: a driver
# task `yield [T, gate item]` runs on the scheduler, T suspends at its own yield, the gate batch (highest priority) is
# flushed first and its flush body applies T.set_error(e) / T.set_value(v).  Offered for the item-yielding AsyncTask
# kinds while T is uncomputed and has not started.
XSET = [("xset", "set_error", "e1"), ("xset", "set_error", "e2"), ("xset", "set_value", "v1")]
TAIL = [("is_computed",), ("error",), ("value",), ("call",), ("set_value", "v2"), ("set_error", "e2"),
        ("is_computed",), ("value",), ("error",)]
DEPTH = {"quick": 5, "thorough": 7}
RULE = ("for each of 21 object kinds (Future with returning / raising provider, ConstFuture, ErrorFuture, AsyncTask "
        "without a yield returning / raising, AsyncTask yielding one harness batch item then returning / raising, "
        "harness BatchBase subclass with returning / raising flush body, harness batch item whose batch sets its value / "
        "its error; AsyncTask whose single yield sits in try/finally with a clean finally / a finally that raises / a "
        "body that swallows GeneratorExit and yields again, so that generator.close() raises; each of the 6 failing kinds "
        "also with an exception whose truth value is False; e2 is such an exception too) ALL histories over the 17-operation alphabet {value(), error(), f(), is_computed(), set_value(v1|v2), "
        "set_error(e1|e2), reset_unsafe(), a task awaiting the future through the scheduler with `yield f` / `yield f, f` "
        "(not offered while the future is uncomputed and has no computation left), set_error(e1|e2) / set_value(v1) reaching an "
        "item-yielding AsyncTask from outside WHILE ITS GENERATOR IS SUSPENDED at the yield (a driver task awaits [task, gate "
        "item] on the scheduler and the flush body of the gate batch, flushed first, performs the call; offered while the "
        "task is uncomputed and has not started), subscribe well-behaved callback, subscribe callback raising Exception, subscribe one-shot callback that unsubscribes itself when notified} up to "
        "length 5 (quick) / 7 (thorough) (one less for the 6 falsy twins) are explored breadth-first on fresh real objects, merging histories only when "
        "(R4 state, is_computed(), _value, _error, per-subscriber notification counts, provider run count, generator / "
        "batch residue) coincide; every executed history is followed by a fixed 9-operation probe tail on the same live "
        "objects. Every operation is compared with the reference three-state machine R4. evals = histories executed "
        "(distinct state x operation edges + roots); transitions = operations applied to real objects (replayed prefix "
        "+ new operation + probe tail); non-trivial = distinct states in which the future is computed or has at least "
        "one subscriber")
EXPLANATION = ("breadth-first explicit-state search over operation histories replayed on fresh real futures, every step "
               "compared with the plain-Python three-state reference machine R4")
ASSUMPTIONS = [
    "operations are applied from outside the future, one after the other, on one thread; callbacks only observe (the one-shot "
    "callback additionally unsubscribes itself: from then on it is no longer a subscriber and must not be notified again, "
    "while the subscribers after it in the list must still be notified by that same completion)",
    "an outcome that is an error is that very exception object whatever its truth value (falsy kinds / e2: exception "
    "classes defining __len__ -> 0)",
    "the answer of the call that performs the computation is only required to convey the outcome (error() may return or raise it)",
    "ConstFuture/ErrorFuture use a sinking event hook: subscribing is a no-op by design, notification is not judged for them",
    "what a future without a (remaining) computation does when asked for its value after reset_unsafe() is not judged; "
    "whatever outcome it then takes must be reported consistently from then on",
    "the await operations run a fresh one-statement task on the thread's scheduler; the answer judged is what that task "
    "receives from its yield (value, pair of values, or the error thrown into it)",
    "the answer of a set_* that completes a suspended task is treated like the answer of the call that performs the "
    "computation: it may raise whatever generator.close() raised (the clean-up error, or RuntimeError 'generator ignored "
    "GeneratorExit'); judged are the outcome, the notifications, the refusal of later set_* and what every reader "
    "(including the driver task that awaited it) sees",
    "after that operation the thread's scheduler is reset by the harness (the driver ended while the batch of the task's "
    "own item was never flushed), as it is at the start of every history",
    "a raising subscriber raises an Exception subclass (BaseException subscribers are outside the statement)",
]


def jobs(tier, seed):
    for k in KINDS:
        # the falsy twins differ from their ordinary kind only where an error's truth value is consulted: one level less
        yield {"kind": k, "depth": DEPTH[tier] - (1 if k.endswith("_falsy") else 0)}


def workers_per_build(tier, nper):
    # 18 jobs per build: 9 workers per build finish in two rounds (three with the default 8)
    return max(nper, (len(KINDS) + 1) // 2)


def worker_init(env):
    from .. import progx
    progx.worker_init(env)
    # asynq reports an exception raised by a subscriber with print() + traceback.print_exc(); both streams are already
    # captured and discarded, formatting the traceback (a third of the run time) is skipped as well
    import traceback
    traceback.print_exc = lambda *a, **k: None


# ---------------------------------------------------------------------------------------------------------------
# harness classes on the real library (created lazily: asynq must be imported from the snapshot build)

_H = None


def _harness():
    global _H
    if _H is not None:
        return _H
    import asynq
    from asynq import BatchBase, BatchItemBase
    from asynq.futures import _none, FutureIsAlreadyComputed

    class HB(BatchBase):
        """harness batch with its own active-batch pointer (w.active)"""

        def __init__(self, w):
            BatchBase.__init__(self)
            self.w = w

        def _try_switch_active_batch(self):
            w = self.w
            if w.active is self:
                w.active = HB(w)

        def _flush(self):
            self.w.flush_body(self)

    class HI(BatchItemBase):
        def __init__(self, w):
            b = w.active
            if b is None:
                b = w.active = HB(w)
            BatchItemBase.__init__(self, b)

    @asynq.asynq()
    def t0(w, raising):
        return w.finish_run(w.begin_run(), raising)

    @asynq.asynq()
    def t1(w, raising):
        n = w.begin_run()
        it = HI(w)
        w.keep.append(it)
        got = yield it
        if got is not w.item_value:
            w.trouble.append(("yield-value", "task received %r from its yield" % (got,)))
        return w.finish_run(n, raising)

    @asynq.asynq()
    def t1s(w, mode):
        n = w.begin_run()
        it = HI(w)
        w.keep.append(it)
        if mode == "swallow":
            try:
                yield it
            except BaseException:
                # "asynchronous clean-up on the way out": ignores GeneratorExit, so generator.close() raises RuntimeError
                it2 = HI(w)
                w.keep.append(it2)
                yield it2
            return w.finish_run(n, False)
        try:
            yield it
        finally:
            if mode == "finraise":
                w.cleanup(n)  # raises: generator.close() raises it too
        return w.finish_run(n, False)

    class GB(BatchBase):
        """the gate batch: flushed before any HB batch; its flush body performs the external completion"""

        def __init__(self, w):
            BatchBase.__init__(self)
            self.w = w

        def _try_switch_active_batch(self):
            w = self.w
            if w.gate is self:
                w.gate = None

        def get_priority(self):
            return (1, 0)

        def _flush(self):
            self.w.gate_body(self)

    class GI(BatchItemBase):
        def __init__(self, w):
            if w.gate is None:
                w.gate = GB(w)
            BatchItemBase.__init__(self, w.gate)

    @asynq.asynq()
    def driver(t, gate_item):
        return (yield [t, gate_item])

    @asynq.asynq()
    def aw(f, twice):
        if twice:
            return (yield f, f)
        return (yield f)

    class NS(object):
        pass

    _H = NS()
    _H.aw = aw
    _H.t1s, _H.GI, _H.driver = t1s, GI, driver
    _H.asynq = asynq
    _H.HB, _H.HI, _H.t0, _H.t1 = HB, HI, t0, t1
    _H.none = _none
    _H.Already = FutureIsAlreadyComputed
    return _H


# ---------------------------------------------------------------------------------------------------------------
# R4: the reference three-state future


class R4(object):
    def __init__(self, st):
        self.st = st  # None (uncomputed) | ("v", token) | ("e", token)
        self.subs = []  # 'good' / 'bad' / 'oneshot', in subscription order
        self.gone = []  # one-shot subscribers that have unsubscribed themselves
        self.counts = []  # notifications received per subscriber
        self.completions = 0
        self.runs = 0  # provider / body / flush-body runs in total
        self.runs_epoch = 0  # ... since construction or the last reset_unsafe()

    def key(self):
        return (self.st, tuple(self.subs), tuple(self.gone), tuple(self.counts), self.completions, self.runs, self.runs_epoch)


class World(object):
    def __init__(self, kind):
        H = _harness()
        histx.reset_asynq()
        self.H = H
        self.label = kind
        self.falsy = kind.endswith("_falsy")
        if self.falsy:
            kind = kind[:-len("_falsy")]
        self.kind = kind
        self.ErrCls = histx.HFalsyErr if self.falsy else HErr
        self.T = Tokens(H.none)
        self.keep = []
        self.trouble = []
        self.nops = 0
        self.last = None
        self.stats = {}
        self.runs = []  # product of each provider run: ("v", tok) | ("e", tok) | None (unknown / unfinished)
        self.log = []  # (subscriber id, saw is_computed(), saw outcome)
        self.active = None
        self.gate = None
        self.gate_action = None
        self.gate_reply = None
        self.driver_reply = None
        self.vals = {"v1": self.T.reg(Val("v1"), "v1"), "v2": self.T.reg(Val("v2"), "v2")}
        # e2 is an exception whose truth value is False (e.g. one carrying an empty list of reasons)
        self.errs = {"e1": self.T.reg(HErr("e1"), "e1"), "e2": self.T.reg(histx.HFalsyErr("e2"), "e2")}
        self.judge_notify = True
        self.item_value = self.T.reg(Val("item"), "item")
        st0 = None
        from asynq import Future, ConstFuture, ErrorFuture
        if kind == "fut_ret":
            self.obj = Future(lambda: self.finish_run(self.begin_run(), False))
        elif kind == "fut_raise":
            self.obj = Future(lambda: self.finish_run(self.begin_run(), True))
        elif kind == "const":
            self.obj = ConstFuture(self.T.reg(Val("c0"), "c0"))
            st0 = ("v", "c0")
            self.judge_notify = False
        elif kind == "errfut":
            self.obj = ErrorFuture(self.T.reg(self.ErrCls("ce0"), "ce0"))
            st0 = ("e", "ce0")
            self.judge_notify = False
        elif kind in ("at0_ret", "at0_raise"):
            self.obj = H.t0.asynq(self, kind.endswith("raise"))
        elif kind.startswith("at1s_"):
            self.obj = H.t1s.asynq(self, kind[5:])
        elif kind in ("at1_ret", "at1_raise"):
            self.obj = H.t1.asynq(self, kind.endswith("raise"))
        elif kind in ("batch_ok", "batch_raise"):
            self.active = H.HB(self)
            self.obj = self.active
            self.keep.append(H.HI(self))
        elif kind in ("item_ok", "item_err"):
            self.obj = H.HI(self)
        else:
            raise ValueError(kind)
        self.batch0 = self.active
        self.m = R4(st0)
        # "complete from construction"
        self.trouble_at_start = []
        if st0 is not None and self.obs() != st0:
            self.trouble_at_start.append(("not-complete-from-construction",
                                          "%s is %r right after construction, expected %r" % (kind, self.obs(), st0)))

    # ---- providers -----------------------------------------------------------------------------------------
    def begin_run(self):
        self.runs.append(None)
        return len(self.runs) - 1

    def finish_run(self, n, raising):
        if raising:
            e = self.T.reg(self.ErrCls(("pe", n)), ("pe", n))
            self.runs[n] = ("e", ("pe", n))
            raise e
        v = self.T.reg(Val(("pv", n)), ("pv", n))
        self.runs[n] = ("v", ("pv", n))
        return v

    def cleanup(self, n):
        import sys
        e = self.T.reg(HErr(("cl", n)), ("cl", n))
        if sys.exc_info()[0] is not GeneratorExit:
            self.runs[n] = ("e", ("cl", n))  # on the normal path the failing clean-up is what the body produces
        raise e

    def gate_body(self, batch):
        name, arg = self.gate_action
        t = self.obj
        self.gate_suspended = (not t.is_computed()) and t._generator is not None and t.iteration_index > 0
        if name == "set_error":
            self.gate_reply = call(t.set_error, self.errs[arg])
        else:
            self.gate_reply = call(t.set_value, self.vals[arg])
        for it in batch.items:
            it.set_value(self.item_value)

    def flush_body(self, batch):
        k = self.kind
        if k.startswith("at1"):
            # the flush that serves the task's item is not the task's computation: not counted as a run
            for it in batch.items:
                if not it.is_computed():
                    it.set_value(self.item_value)
            return
        n = self.begin_run()
        if k in ("batch_ok", "batch_raise"):
            for it in batch.items:
                if not it.is_computed():
                    it.set_value(self.item_value)
            if k == "batch_raise":
                self.finish_run(n, True)
            self.runs[n] = ("v", None)
            return
        # item kinds: the batch's flush body is the item's computation
        it = self.obj
        if it.is_computed():
            return
        if k == "item_err":
            e = self.T.reg(self.ErrCls(("pe", n)), ("pe", n))
            self.runs[n] = ("e", ("pe", n))
            it.set_error(e)
        else:
            v = self.T.reg(Val(("pv", n)), ("pv", n))
            self.runs[n] = ("v", ("pv", n))
            it.set_value(v)

    # ---- observation ---------------------------------------------------------------------------------------
    def obs(self):
        f = self.obj
        if not f.is_computed():
            return None
        if f._error is not None:
            return ("e", self.T.tok(f._error))
        return ("v", self.T.tok(f._value))

    def _cb(self, cid, kind):
        def cb(fut):
            if fut is not self.obj:
                self.trouble.append(("notify-argument", "subscriber called with %r instead of the future" % (fut,)))
            self.log.append((cid, bool(fut.is_computed()), self.obs()))
            if kind == "oneshot":
                fut.on_computed.unsubscribe(cb)
            if kind == "bad":
                raise HErr(("cb", cid))
        return cb

    def extra_obs(self):
        k = self.kind
        f = self.obj
        if k.startswith("at"):
            return (f._generator is None,)
        if k.startswith("batch"):
            it = self.keep[0]
            return (len(f.items), self.active is f, it.is_computed())
        if k.startswith("item"):
            return (f.batch.is_computed(), self.active is f.batch)
        return ()

    def canon(self):
        per = [0] * len(self.m.subs)
        early = 0
        for cid, saw, out in self.log:
            per[cid] += 1
            early += 0 if saw else 1
        f = self.obj
        return (self.m.key(), bool(f.is_computed()), self.T.tok(f._value), self.T.tok(f._error), tuple(per), early,
                len(self.runs), self.extra_obs())

    def nontrivial(self):
        return self.m.st is not None or bool(self.m.subs)

    def can_await(self):
        """awaiting an uncomputed future that has no computation left never ends (item of a flushed batch after
        reset_unsafe()) or is undefined (reset ConstFuture): the statement says nothing about that, not offered"""
        if self.m.st is not None:
            return True
        if self.kind in ("const", "errfut"):
            return False
        if self.kind.startswith("item"):
            return not self.obj.batch.is_computed()
        return True

    def can_xset(self):
        f = self.obj
        return self.kind.startswith("at1") and self.m.st is None and f._generator is not None and f.iteration_index == 0

    def menu(self):
        ops = OPS + AWAIT if self.can_await() else OPS
        return ops + XSET if self.can_xset() else ops

    def tail(self):
        return TAIL

    # ---- one operation, judged -----------------------------------------------------------------------------
    def _do(self, op):
        f = self.obj
        name = op[0]
        if name == "value":
            return call(f.value)
        if name == "error":
            return call(f.error)
        if name == "call":
            return call(f)
        if name == "is_computed":
            return call(f.is_computed)
        if name == "set_value":
            return call(f.set_value, self.vals[op[1]])
        if name == "set_error":
            return call(f.set_error, self.errs[op[1]])
        if name == "reset_unsafe":
            return call(f.reset_unsafe)
        if name == "await":
            return call(self.H.aw, f, op[1] == 2)
        if name == "xset":
            H = self.H
            self.gate_action = (op[1], op[2])
            self.gate_reply = None
            self.gate_suspended = False
            self.driver_reply = call(H.driver, f, H.GI(self))
            # the driver is over while the batch of T's own item was never flushed: leave a clean scheduler behind
            H.asynq.scheduler.reset()
            if self.gate_reply is None:
                self.trouble.append(("harness", "the gate batch was not flushed (driver answered %r)" % (self.driver_reply,)))
                return ("ret", None)
            if not self.gate_suspended:
                self.trouble.append(("harness", "the task was not suspended at its yield when the gate batch was flushed"))
            return self.gate_reply
        if name == "sub":
            return call(f.on_computed.subscribe, self._cb(len(self.m.subs), op[1]))
        raise ValueError(op)

    def _stat(self, k):
        self.stats[k] = self.stats.get(k, 0) + 1

    def _completion(self, dlog, V):
        m = self.m
        m.completions += 1
        if not self.judge_notify:
            return
        if m.subs:
            self._stat("judged: completions with subscribers")
            if "bad" in m.subs[:-1]:
                self._stat("judged: completions with a raising subscriber ahead of another subscriber")
        for i in range(len(m.subs)):
            n = sum(1 for e in dlog if e[0] == i)
            m.counts[i] += n
            want = 0 if m.gone[i] else 1
            if n != want:
                V.append(("notify-count", "completion #%d notified subscriber %d (%s) %d times instead of %d; subscribers: %s"
                          % (m.completions, i, m.subs[i], n, want, m.subs)))
            if m.subs[i] == "oneshot":
                m.gone[i] = True
        for cid, saw, out in dlog:
            if not saw or out != m.st:
                V.append(("notify-before-visible", "subscriber %d was notified while is_computed()=%r and the outcome read %r; "
                          "the outcome is %r" % (cid, saw, out, m.st)))

    def apply(self, op):
        m = self.m
        V = list(self.trouble_at_start)
        self.trouble_at_start = []
        before = m.st
        nlog, nruns = len(self.log), len(self.runs)
        rep = self._do(op)
        self.nops += 1
        dlog = self.log[nlog:]
        druns = self.runs[nruns:]
        after = self.obs()
        T = self.T
        r = (rep[0], T.tok(rep[1]))
        self.last = r
        name = op[0]
        m.runs += len(druns)
        m.runs_epoch += len(druns)
        what = "%s%s" % (name, "(%s)" % op[1] if len(op) > 1 else "()")

        def unchanged():
            if after != before:
                V.append(("outcome-changed", "%s changed the outcome from %r to %r" % (what, before, after)))
            if dlog:
                V.append(("spurious-notification", "%s notified subscribers %s although nothing was completed"
                          % (what, [e[0] for e in dlog])))

        def report(st):
            # the answer value()/f()/error() must give for outcome st
            if name == "error":
                ok = r == ("ret", None) if st[0] == "v" else r == ("ret", st[1])
                exp = "return None" if st[0] == "v" else "return %r" % (st[1],)
            elif name == "await" and op[1] == 2 and st[0] == "v":
                ok = r == ("ret", ("tuple", st[1], st[1]))
                exp = "the awaiting task receives (%r, %r)" % (st[1], st[1])
            else:
                ok = r == (("ret", st[1]) if st[0] == "v" else ("exc", st[1]))
                exp = ("return %r" if st[0] == "v" else "raise %r") % (st[1],)
            return ok, exp

        if name in ("value", "error", "call", "await"):
            if before is not None:
                self._stat("judged: reports on a computed future")
                ok, exp = report(before)
                if not ok:
                    V.append(("inconsistent-report", "%s on a future computed with %r answered %r, expected: %s" % (what, before, r, exp)))
                if druns:
                    V.append(("recomputed", "%s ran the computation again although the future was computed (%r)" % (what, before)))
                unchanged()
            else:
                if m.runs_epoch > 1:
                    V.append(("ran-twice", "the computation ran %d times for one (re)computation" % m.runs_epoch))
                if druns and druns[-1] is not None and after != druns[-1]:
                    V.append(("outcome-mismatch", "%s ran the computation, which produced %r, but the future now holds %r"
                              % (what, druns[-1], after)))
                m.st = after  # where the statement is silent the outcome is adopted; from here on it must be reported
                self._stat("judged: computing calls" if druns else "computing calls without a computation left (outcome adopted)")
                if after is not None:
                    self._completion(dlog, V)
                    ok, exp = report(after)
                    if not ok and name == "error" and after[0] == "e" and r == ("exc", after[1]):
                        ok = True  # the computing call itself may raise the error it recorded
                    if not ok:
                        V.append(("inconsistent-report", "%s computed the future with %r but answered %r, expected: %s"
                                  % (what, after, r, exp)))
                else:
                    for cid, saw, out in dlog:
                        V.append(("notify-before-visible", "subscriber %d notified by %s although the future is not computed" % (cid, what)))
        elif name == "is_computed":
            if r != ("ret", before is not None):
                V.append(("inconsistent-report", "is_computed() answered %r on a future whose outcome is %r" % (r, before)))
            if druns:
                V.append(("recomputed", "is_computed() ran the computation"))
            unchanged()
        elif name in ("set_value", "set_error", "xset"):
            setname, arg = (op[1], op[2]) if name == "xset" else (name, op[1])
            target = ("v" if setname == "set_value" else "e", arg)
            if name == "xset":
                what = "%s(%s) reaching the task while it is suspended at its yield" % (setname, arg)
                self._stat("judged: completion from outside while the task's generator is suspended")
                if rep[0] == "exc" and not isinstance(rep[1], self.H.Already):
                    self._stat("the completing set_* raised what generator.close() raised (answer not judged)")
                # the driver awaited [T, gate item]: it must see T's outcome like any reader
                d = self.driver_reply
                if target[0] == "e":
                    dok = d[0] == "exc" and T.tok(d[1]) == arg
                else:
                    dok = d[0] == "ret" and isinstance(d[1], list) and len(d[1]) == 2 and T.tok(d[1][0]) == arg
                if not dok and after == target:
                    V.append(("inconsistent-report", "the task awaiting the future completed with %r received %r"
                              % (target, (d[0], T.tok(d[1])))))
            already = rep[0] == "exc" and isinstance(rep[1], self.H.Already)
            if before is not None:
                self._stat("judged: set_* on a computed future")
                if not already:
                    V.append(("second-set-accepted", "%s on a future computed with %r answered %r instead of raising "
                              "FutureIsAlreadyComputed" % (what, before, r)))
                if druns:
                    V.append(("recomputed", "%s ran the computation" % what))
                unchanged()
            else:
                if already:
                    V.append(("first-set-rejected", "%s on an uncomputed future raised FutureIsAlreadyComputed" % what))
                if m.runs_epoch > 1:
                    V.append(("ran-twice", "the computation ran %d times for one (re)computation" % m.runs_epoch))
                if after != target:
                    V.append(("set-lost", "after %s on an uncomputed future the outcome reads %r" % (what, after)))
                m.st = target
                self._completion(dlog, V)
        elif name == "reset_unsafe":
            m.st = None
            m.runs_epoch = 0
            if after is not None:
                V.append(("reset-ignored", "after reset_unsafe() the future still reads %r" % (after,)))
            if dlog or druns:
                V.append(("spurious-notification", "reset_unsafe() notified subscribers or ran the computation"))
        elif name == "sub":
            m.subs.append(op[1])
            m.gone.append(False)
            m.counts.append(0)
            if druns:
                V.append(("recomputed", "subscribing ran the computation"))
            unchanged()
        if self.trouble:
            V.extend(self.trouble)
            self.trouble = []
        return V


def make(root):
    return World(root)


def describe(root, ops):
    return "%s: %s" % (root, " ; ".join("%s(%s)" % (o[0], ",".join(map(str, o[1:]))) for o in ops) or "<construction>")


def run(job, env):
    res = histx.explore(make, [job["kind"]], job["depth"], env, job["kind"], describe)
    res["counters"] = {"%s: %s" % (job["kind"], k): v for k, v in res["counters"].items()}
    return res


def replay(case, env):
    return histx.replay(make, case, describe)


def finish(acc, tier):
    return {"bounds": {"history length": DEPTH[tier], "operations": len(OPS) + len(AWAIT) + len(XSET), "probe tail": len(TAIL),
                       "object kinds": KINDS}}
