"""C15 - fn.asyncio() under an asyncio event loop matches fn() on the asynq scheduler (and the sequential reference)."""
import time

from .. import gen
from .. import prog as P

ID = "C15"
ENGINE = "PRODX"
BUILDS = ("pure", "compiled")
RULE = ("every batch-free program (leaves: child task | ConstFuture; a body = 0..3 yields of a leaf or a list of 2..3 "
        "leaves) up to size n, plus every placement of <=k deviations from the batch-free menu (None leaf, tuple / dict / "
        "nested / one-element structures, empty list / tuple / dict, `yield None`, raise at any statement gap, try/except "
        "around any statement range with an empty handler or a handler that yields another child task, and a plain "
        "synchronous call of an @asynq() function at any gap); on the 2-deviation rungs additionally, for every try statement "
        "with an empty handler whose body can fail (raise in the body itself, in a yielded child or in a child inside a "
        "yielded structure, or a refused synchronous call), the after-catch variants: `yield None` / `yield []` / `yield ()` / "
        "`yield {}` / `yield ConstFuture` as the handler, and the same yield inserted right after the try statement (mixed "
        "style without and with odd-id explicit asyncio_fn for size <=3, without for size 4; the same program may be "
        "reached from two base programs); each under 4 call styles (plain function, bound method, "
        "@async_proxy returning fn.asynq(), mixed by task id mod 4 over function / method / proxy / asynq.async_call; "
        "constants are ConstFuture / a non-generator @asynq() method / an @async_proxy returning ConstFuture, by style) x 3 "
        "asyncio_fn modes (none / tasks with even id / tasks with odd id are declared with an explicit hand-written async "
        "def), plus an exception-valued variant of the program (every constant and every task return value is an Exception "
        "INSTANCE used as an ordinary value, and an except clause keeps the caught exception object inside the returned "
        "value) under the mixed style with no / odd-id explicit asyncio_fn on the <=1-deviation rungs and with none on the "
        "2-deviation rungs, both builds. Each (program, configuration) is executed twice: fn(code) on the asynq scheduler and "
        "`await fn.asyncio(code)` from a driver coroutine on one long-lived event loop stepped one iteration at a time next "
        "to an unrelated watcher coroutine. On the rungs with <=1 deviation every program additionally runs a second phase "
        "(plain function and mixed style without explicit asyncio_fn, mixed style with even / odd explicit asyncio_fn, mixed "
        "style exception-valued): after the first await completed (value or exception) the same driver coroutine starts a "
        "FRESH unrelated watcher task and awaits fn.asyncio(code) again, the first two bodies suspending once so that the "
        "watcher runs while the call is in flight; the fresh watcher must read is_asyncio_mode() False at every sample, its "
        "own plain synchronous @asynq() calls must succeed, and outcome and body log of the second await must equal the "
        "first. evals = executions (both engines); states = (program, configuration) pairs "
        "judged; transitions = body steps (starts + resumptions at yields) over all executions; non-trivial = programs with "
        ">=2 tasks or a failure (raise / refused synchronous call)")
EXPLANATION = ("exhaustive product of the bounded batch-free program family with call styles and asyncio_fn modes; every "
               "execution on both real engines is compared with the sequential evaluator R1 and with each other, the body "
               "log is checked for await-all-before-raise, and asynq.is_asyncio_mode() is sampled at every body step and "
               "around the await")
ASSUMPTIONS = [
    "values are opaque tokens (tuples; in the exception-valued variant Exception instances HVal(token), and caught "
    "exception objects) compared after normalisation to (type name, args), never by identity; bodies have no side effects "
    "other than the harness log",
    "a value that is an exception object is just a value: only what a body actually raised may be raised at a yield",
    "asynq.result(), ErrorFuture and lazily computed Future are outside the stated alphabet (trees of tasks, constant "
    "futures, None, nested structures, raises, try/except): they are run as a separate informational family that only "
    "produces counters",
    "programs with a plain synchronous call are run only where every body is an asynq generator (no explicit asyncio_fn): "
    "the statement does not say what the mode flag is inside a hand-written asyncio_fn; in those programs the asyncio side "
    "is compared with R1 where the call raises RuntimeError, the scheduler side with plain R1",
    "inside a hand-written asyncio_fn the flag is only required to be unchanged across its awaits (confinement), not to "
    "have a particular value",
    "a yield that carries nothing (None, empty list / tuple / dict) is an ordinary yield: it receives None / the empty "
    "container in both engines, also right after a caught failure; the after-catch variants are generated per base program, "
    "so a few programs are executed twice (states counts executions' (program, configuration) pairs, not distinct programs)",
    "the asyncio ready queue is FIFO, so a batch-free program has one asyncio schedule per configuration",
]
TECHNIQUE = "bounded exhaustive differential execution of a program family on two real engines vs a sequential reference interpreter"

K = gen.K
IA = gen.IA
CHILDK = ("c", ("t", (("y", K),)))
# dict keys of gen's shape:D are x,y,z (sorted); rename so that insertion order differs from sorted order
KEYMAP = {"x": "q", "y": "b", "z": "m", "u": "a"}

MENU = ["leaf:n", "shape:T", "shape:D", "shape:nest", "shape:wrap1", "ins:yempty", "ins:ynone", "ins:raise", "wrap:try"]
MENU_SYNC = MENU + ["ins:sync"]
INFO_MENU = ["ins:res", "leaf:ef", "leaf:lzok", "leaf:lzraise"]

# [style, asyncio_fn mode, xv]; xv=1: exception-valued variant (every constant and every task return value is an
# Exception instance used as an ordinary value; an except clause keeps the caught exception object in the value)
ALL_CFG = [[s, a, 0] for a in (0, 1, 2) for s in (0, 1, 2, 3)] + [[3, 0, 1], [3, 2, 1]]
CFG_FEW = [[3, 0, 0], [3, 2, 0], [3, 0, 1]]
CFG_ONE = [[3, 0, 0]]

# (max size n, max deviations k, menu, configurations)
MENU_TRY = ["ins:raise", "wrap:try"]  # a failure is only *caught* with >=2 deviations: deeper rungs for this pair
LADDER = {
    "quick": [
        (5, 0, MENU, ALL_CFG),
        (4, 1, MENU_SYNC, ALL_CFG),
        (3, 2, MENU_SYNC, CFG_FEW),
        (4, 2, MENU_TRY, CFG_FEW),
        (3, 3, MENU_TRY, CFG_ONE),
    ],
    "thorough": [
        (7, 0, MENU, ALL_CFG),
        (5, 1, MENU_SYNC, ALL_CFG),
        (4, 2, MENU_SYNC, CFG_FEW),
        (5, 2, MENU_TRY, CFG_FEW),
        (4, 3, MENU_TRY, CFG_ONE),
    ],
}
TAIL_K = 2  # the rungs with exactly this many deviations also run the after-catch variants (see tail_variants) ...
TAIL_CFGS_SMALL = [[3, 0, 0], [3, 2, 0]]  # ... of programs of size <= 3 under these configurations
TAIL_CFGS_LARGE = [[3, 0, 0]]  # ... and of larger programs under these
PHASE2_MAX_K = 1  # rungs with <= this many deviations also run the second phase (see RULE) ...
PHASE2_CFGS = [[0, 0, 0], [3, 0, 0], [3, 1, 0], [3, 2, 0], [3, 0, 1]]  # ... under these configurations
INFO_LADDER = {"quick": (3, 1), "thorough": (4, 1)}

# --------------------------------------------------------------------------------------------------
# the batch-free base family, generated directly (same grammar as gen.leaves/yields/bodies without items)

_lm, _ym, _bm = {}, {}, {}


def bf_leaves(n):
    r = _lm.get(n)
    if r is None:
        r = []
        if n == 1:
            r.append(K)
        if n >= 1:
            for b in bf_bodies(n - 1):
                r.append(("c", ("t", b)))
        _lm[n] = r
    return r


def bf_yields(n):
    r = _ym.get(n)
    if r is None:
        r = [("y", lf) for lf in bf_leaves(n)]
        for i in range(1, n):
            for a in bf_leaves(i):
                for b in bf_leaves(n - i):
                    r.append(("y", ("L", (a, b))))
        for i in range(1, n - 1):
            for j in range(1, n - i):
                k = n - i - j
                if k < 1:
                    continue
                for a in bf_leaves(i):
                    for b in bf_leaves(j):
                        for c in bf_leaves(k):
                            r.append(("y", ("L", (a, b, c))))
        _ym[n] = r
    return r


def bf_bodies(n):
    r = _bm.get(n)
    if r is None:
        r = []
        if n == 0:
            r.append(())
        else:
            for y in bf_yields(n):
                r.append((y,))
            for i in range(1, n):
                for a in bf_yields(i):
                    for b in bf_yields(n - i):
                        r.append((a, b))
            for i in range(1, n - 1):
                for j in range(1, n - i):
                    k = n - i - j
                    if k < 1:
                        continue
                    for a in bf_yields(i):
                        for b in bf_yields(j):
                            for c in bf_yields(k):
                                r.append((a, b, c))
        _bm[n] = r
    return r


def bf_programs(n):
    """== [p for p in gen.base_programs(n, symmetric=False) if p has no ("i", ...) leaf], same order"""
    for b in bf_bodies(n):
        yield ("P", ("t", b), (), ())


def is_batch_free(x):
    if isinstance(x, tuple):
        if len(x) == 3 and x[0] == "i":
            return False
        for y in x:
            if not is_batch_free(y):
                return False
    return True


# --------------------------------------------------------------------------------------------------
# normalisation of deviated terms: gen's try handler / sync bodies use a batch item -> replaced by a child task


class _Drop(Exception):
    pass


def _n_task(t):
    return ("t", _n_block(t[1]))


def _n_block(stmts):
    return tuple([_n_stmt(s) for s in stmts])


def _n_stmt(st):
    op = st[0]
    if op == "y":
        return ("y", _n_struct(st[1]))
    if op == "try":
        return ("try", _n_block(st[1]), _n_block(st[2]))
    if op == "sync":
        if st[2] != "call":
            raise _Drop()  # fn.asynq().value() is not "a plain synchronous call"
        return ("sync", _n_task(st[1]), "call")
    if op in ("raise", "probe", "res"):
        return st
    raise _Drop()


def _n_struct(s):
    op = s[0]
    if op == "T" or op == "L":
        return (op, tuple([_n_struct(x) for x in s[1]]))
    if op == "D":
        return ("D", tuple([(KEYMAP.get(k, k), _n_struct(x)) for k, x in s[1]]))
    if op == "c":
        return ("c", _n_task(s[1]))
    if op == "i":
        if s == IA:
            return CHILDK
        raise _Drop()
    if op in ("k", "n", "ef", "lz"):
        return s
    raise _Drop()


def normalize(term):
    """batch-free image of a deviated term, or None when the term is outside the C15 alphabet"""
    try:
        if term[2] or term[3]:
            raise _Drop()
        return ("P", _n_task(term[1]), (), ())
    except _Drop:
        return None


def family(base, menu, k, tails=False):
    """(term, ndev, is_tail_variant) for every normalised program within k deviations of `base`; with tails=True every
    program that has a catching try statement is followed by its after-catch variants (see tail_variants)"""
    seen = set()
    for term, nd in (gen.deviated(base, menu, k) if k else [(base, 0)]):
        nt = normalize(term)
        if nt is None or nt in seen:
            continue
        seen.add(nt)
        yield nt, nd, False
        if tails and nd >= 2:
            for v in tail_variants(nt):
                if v not in seen:
                    seen.add(v)
                    yield v, nd, True


# after-catch variants: a yield that carries nothing (None, empty list / tuple / dict) or only a constant, placed as the
# handler of a catching try statement or right after that statement
TAILS = (("y", ("n",)), ("y", ("L", ())), ("y", ("T", ())), ("y", ("D", ())), ("y", K))


def _has_failure(x):
    if isinstance(x, tuple):
        if x and (x[0] == "raise" or x[0] == "sync"):
            return True
        for y in x:
            if _has_failure(y):
                return True
    return False


def tail_variants(term):
    """for every try statement with an empty handler whose body (or a task below it) contains a raise / refused
    synchronous call - i.e. a failure of a yielded child, of a yielded structure or of the body itself can be caught -
    and every TAIL: the program with handler (TAIL,) and the program with TAIL inserted right after the try statement"""
    for nt in _tv_task(term[1]):
        yield ("P", nt, (), ())


def _tv_task(t):
    for b in _tv_block(t[1]):
        yield ("t", b)


def _tv_block(stmts):
    for i, st in enumerate(stmts):
        op = st[0]
        if op == "try":
            if st[2] == () and _has_failure(st[1]):
                for tl in TAILS:
                    yield stmts[:i] + (("try", st[1], (tl,)),) + stmts[i + 1:]
                    yield stmts[:i + 1] + (tl,) + stmts[i + 1:]
            for b in _tv_block(st[1]):
                yield stmts[:i] + (("try", b, st[2]),) + stmts[i + 1:]
            for b in _tv_block(st[2]):
                yield stmts[:i] + (("try", st[1], b),) + stmts[i + 1:]
        elif op == "y":
            for ns in _tv_struct(st[1]):
                yield stmts[:i] + (("y", ns),) + stmts[i + 1:]
        elif op == "sync":
            for nt in _tv_task(st[1]):
                yield stmts[:i] + (("sync", nt, st[2]),) + stmts[i + 1:]


def _tv_struct(s):
    op = s[0]
    if op == "L" or op == "T":
        for i, x in enumerate(s[1]):
            for nx in _tv_struct(x):
                yield (op, s[1][:i] + (nx,) + s[1][i + 1:])
    elif op == "D":
        for i, (k, x) in enumerate(s[1]):
            for nx in _tv_struct(x):
                yield ("D", s[1][:i] + ((k, nx),) + s[1][i + 1:])
    elif op == "c":
        for nt in _tv_task(s[1]):
            yield ("c", nt)


# --------------------------------------------------------------------------------------------------
# jobs


def _chunked(it, n):
    buf = []
    for x in it:
        buf.append(x)
        if len(buf) >= n:
            yield buf
            buf = []
    if buf:
        yield buf


def _chunk(size, k, ncfg):
    if k == 0:
        return max(8, 2400 // ncfg)
    if k == 1:
        return max(1, 96 // ncfg) if size <= 3 else max(1, 48 // ncfg)
    return 1


def jobs(tier, seed):
    # self-check of the direct generator against the filtered gen.base_programs (cheap sizes)
    for n in (1, 2, 3, 4):
        a = list(bf_programs(n))
        b = [p for p in gen.base_programs(n, symmetric=False) if is_batch_free(p)]
        assert a == b, "batch-free generator disagrees with gen.base_programs at size %d" % n
    done = []
    for n, k, menu, cfgs in LADDER[tier]:
        for size in range(1, n + 1):
            cs = [c for c in cfgs
                  if not any(size <= n2 and k <= k2 and set(menu) <= set(m2) and c in c2 for (n2, k2, m2, c2) in done)]
            if not cs:
                continue
            for bases in _chunked(bf_programs(size), _chunk(size, k, len(cs))):
                j = {"family": "main", "bases": bases, "menu": menu if k else [], "k": k, "cfgs": cs, "phase2": k <= PHASE2_MAX_K}
                if k == TAIL_K:
                    j["tail_cfgs"] = TAIL_CFGS_SMALL if size <= 3 else TAIL_CFGS_LARGE
                if k > TAIL_K and all(any(size <= n2 and k2 == TAIL_K and set(menu) <= set(m2) and c in c2 for (n2, k2, m2, c2) in done)
                                      for c in cs):
                    j["min_nd"] = TAIL_K + 1  # programs with fewer deviations already ran on an earlier rung under these configurations
                yield j
        done.append((n, k, menu, cfgs))
    n, k = INFO_LADDER[tier]
    for size in range(1, n + 1):
        for bases in _chunked(bf_programs(size), 16):
            yield {"family": "info", "bases": bases, "menu": INFO_MENU, "k": k, "cfgs": [[0, 0, 0]]}


def worker_init(env):
    from .. import progx
    progx.worker_init(env)
    from .. import aio  # noqa: F401  (imports asynq from the build under test)
    aio.get_loop()


# --------------------------------------------------------------------------------------------------
# judging one (program, configuration)


class Ref(object):
    """per-program reference data shared by all configurations"""

    def __init__(self, prog):
        from .. import aio as A
        self.prog = prog
        self.has_sync = "sync" in prog.features
        r1, exp = P.r1_eval(prog)
        self.r1, self.exp_s = r1, exp
        if self.has_sync:
            self.r1a, self.exp_a = A.r1a_eval(prog)
        else:
            self.r1a, self.exp_a = r1, exp
        self.ych = A.yields_children(prog)
        self._xv = None
        self.nontrivial = prog.ntasks >= 2 or "raise" in prog.features or self.has_sync
        self.sync_callees = _sync_callees(prog.root.stmts, []) if self.has_sync else []


def _xv_exp(A, exp):
    return ("ok", A.xv_expected(exp[1])) if exp[0] == "ok" else exp


def _sync_callees(stmts, acc):
    """tids of the tasks called synchronously anywhere in the program"""
    for st in stmts:
        op = st[0]
        if op == "sync":
            acc.append(st[2].tid)
            _sync_callees(st[2].stmts, acc)
        elif op == "try":
            _sync_callees(st[2], acc)
            _sync_callees(st[3], acc)
        elif op == "y":
            _sync_callees_struct(st[2], acc)
    return acc


def _sync_callees_struct(s, acc):
    op = s[0]
    if op == "L" or op == "T":
        for x in s[1]:
            _sync_callees_struct(x, acc)
    elif op == "D":
        for k, x in s[1]:
            _sync_callees_struct(x, acc)
    elif op == "c":
        _sync_callees(s[2].stmts, acc)


def _cmp_outcome(A, out, exp, xv=0):
    """None if the real outcome equals the reference outcome, else a description.  xv: the real value is normalised
    (exception objects -> type + args) and `exp` is already the normalised expectation"""
    if out is None:
        return "no outcome"
    if out[0] == "ok":
        if exp[0] != "ok":
            return "returned %r, reference raises %r" % (out[1], exp[1])
        got = A.norm(out[1]) if xv else out[1]
        if not A.same(got, exp[1]):
            return "returned %r, reference value %r" % (got, exp[1])
        return None
    t = P.tok(out[1])
    if exp[0] == "ok":
        return "raised %r, reference returns %r" % (out[1], exp[1])
    if t != exp[1]:
        return "raised %r, reference raises %r" % (out[1], exp[1])
    return None


def _order_check(log, ych, found, mode):
    """every task yielded together with others finished before the yielding body is resumed"""
    ended = set()
    nstart, nend = {}, {}
    for ev in log:
        k = ev[0]
        if k == "e":
            ended.add(ev[1])
            nend[ev[1]] = nend.get(ev[1], 0) + 1
        elif k == "s":
            nstart[ev[1]] = nstart.get(ev[1], 0) + 1
        elif k == "r" or k == "x":
            for c in ych.get((ev[1], ev[2]), ()):
                if c not in ended:
                    if k == "x":
                        found.append(("failure-raised-before-all-finished",
                                      "%s: task %d got %r thrown in at yield %d while task %d, yielded together with the failing one, "
                                      "had not finished" % (mode, ev[1], ev[3], ev[2], c)))
                    else:
                        found.append(("resumed-before-all-finished",
                                      "%s: task %d resumed after yield %d while yielded task %d had not finished" % (mode, ev[1], ev[2], c)))
                    return
    for tid, n in nstart.items():
        if n != 1:
            found.append(("task-ran-twice", "%s: body of task %d started %d times" % (mode, tid, n)))
            return
        if nend.get(tid, 0) != 1:
            found.append(("task-unfinished", "%s: body of task %d started but finished %d times" % (mode, tid, nend.get(tid, 0))))
            return


STYLE_NAMES = ("fn", "method", "proxy", "mix")


def judge(ref, style, aio, xv, out, phase2=False):
    """runs one configuration on both engines; appends violations; returns number of executions"""
    from .. import aio as A
    prog = ref.prog
    found = []
    rs, outs = A.run_sync(prog, style, aio, xv)
    ra, outa, problems = A.run_aio(prog, style, aio, xv, phase2)
    if xv:
        if ref._xv is None:
            ref._xv = (_xv_exp(A, ref.exp_s), _xv_exp(A, ref.exp_a))
        exp_s, exp_a = ref._xv
    else:
        exp_s, exp_a = ref.exp_s, ref.exp_a
    found.extend(problems)
    out["transitions"] += sum(1 for ev in rs.log if ev[0] in "srx") + sum(1 for ev in ra.log if ev[0] in "srx")
    cnt = out["counters"]
    cnt["loop_iterations"] = cnt.get("loop_iterations", 0) + ra.iters
    refused_ok = True  # premise of the asyncio-side reference R1A: every plain synchronous call raised RuntimeError
    # ---- plain synchronous calls
    for ev in ra.log:
        if ev[0] == "q":
            cnt["sync_calls_under_asyncio"] = cnt.get("sync_calls_under_asyncio", 0) + 1
            if ev[4] and ev[3] != ("exc", "RuntimeError"):
                if ev[3] == "ok":
                    found.append(("sync-call-not-refused", "plain synchronous call of an @asynq() function in asyncio mode returned "
                                  "normally instead of raising RuntimeError"))
                else:
                    found.append(("sync-call-wrong-exception", "plain synchronous call of an @asynq() function in asyncio mode raised %r "
                                  "instead of RuntimeError" % (ev[3],)))
                refused_ok = False
                break
    # ---- outcomes vs the sequential reference
    d = _cmp_outcome(A, outs, exp_s, xv)
    if d is not None:
        found.append(("sync-outcome", "fn(code) on the asynq scheduler %s" % d))
    d = _cmp_outcome(A, outa, exp_a, xv) if refused_ok else None
    if d is not None:
        found.append(("asyncio-outcome", "await fn.asyncio(code) %s" % d))
    # ---- the two engines against each other
    if not ref.has_sync and outa is not None:
        if outs[0] != outa[0]:
            found.append(("asyncio-vs-sync", "fn(code) gives %r, await fn.asyncio(code) gives %r" % (outs, outa)))
        elif outs[0] == "ok":
            vs, va = (A.norm(outs[1]), A.norm(outa[1])) if xv else (outs[1], outa[1])
            if not A.same(vs, va):
                found.append(("asyncio-vs-sync", "fn(code) returns %r, await fn.asyncio(code) returns %r" % (vs, va)))
        else:
            es, ea = outs[1], outa[1]
            if type(es) is not type(ea) or es.args != ea.args:
                found.append(("asyncio-vs-sync", "fn(code) raises %r, await fn.asyncio(code) raises %r" % (es, ea)))
        ps, pa = A.strip_flags(rs.log, xv), A.strip_flags(ra.log, xv)
        if ps != pa:
            for tid in sorted(set(ps) | set(pa)):
                if ps.get(tid) != pa.get(tid):
                    found.append(("task-log", "body of task %d behaves differently: on the scheduler %r, under asyncio %r"
                                  % (tid, ps.get(tid), pa.get(tid))))
                    break
    # ---- which bodies ran, and await-all-before-raise
    st_s = set(ev[1] for ev in rs.log if ev[0] == "s")
    st_a = set(ev[1] for ev in ra.log if ev[0] == "s")
    if st_s != ref.r1.started:
        found.append(("started-set", "scheduler: bodies of tasks %s ran, reference runs %s" % (sorted(st_s), sorted(ref.r1.started))))
    if st_a != ref.r1a.started and refused_ok:
        found.append(("started-set", "asyncio: bodies of tasks %s ran, reference runs %s" % (sorted(st_a), sorted(ref.r1a.started))))
    _order_check(rs.log, ref.ych, found, "scheduler")
    _order_check(ra.log, ref.ych, found, "asyncio")
    # ---- the asyncio-mode flag
    failed = outa is not None and outa[0] == "err"
    fo = ra.flags_outer  # [outside before, outside after, driver before await, driver after await(, after 2nd await)]
    if len(fo) == (5 if phase2 else 4):
        if fo[0] or fo[2]:
            found.append(("mode-flag-before", "is_asyncio_mode() is True before awaiting fn.asyncio(code)"))
        if fo[1] or fo[3]:
            found.append(("mode-flag-after", "is_asyncio_mode() is still True after `await fn.asyncio(code)` %s"
                          % ("raised" if failed else "returned")))
        elif phase2 and fo[4]:
            found.append(("mode-flag-after", "is_asyncio_mode() is still True after the second `await fn.asyncio(code)` in the same coroutine"))
    elif not problems:
        found.append(("harness", "driver did not record the flag: %r" % (fo,)))
    if any(ra.flags_watch):
        found.append(("mode-flag-leak-to-other-coroutine", "is_asyncio_mode() read True in an unrelated coroutine on the same loop "
                      "(samples per loop iteration: %r)" % (ra.flags_watch,)))
    nat = ra.native
    if phase2 and not problems:
        out["transitions"] += sum(1 for ev in ra.log2 if ev[0] in "srx")
        cnt["second_phase_runs"] = cnt.get("second_phase_runs", 0) + 1
        if len(ra.flags_watch2) > 1:
            cnt["second_phase_runs_watched_in_flight"] = cnt.get("second_phase_runs_watched_in_flight", 0) + 1
        if any(ra.flags_watch2):
            found.append(("mode-flag-leak-to-later-coroutine", "a coroutine started after a first `await fn.asyncio(code)` completed "
                          "read is_asyncio_mode() True while a second call was in flight in the coroutine that created it (samples %r)"
                          % (ra.flags_watch2,)))
        if any(c != "ok" for c in ra.watch2_calls):
            found.append(("sync-call-refused-in-unrelated-coroutine", "plain synchronous @asynq call made by an unrelated coroutine "
                          "while fn.asyncio(code) was in flight elsewhere gave %r" % ([c for c in ra.watch2_calls if c != "ok"][0],)))
        o1, o2 = outa, ra.out2
        if o1 is None or o2 is None or o1[0] != o2[0]:
            found.append(("second-run-differs", "first await gave %r, second await of the same call in the same coroutine gave %r" % (o1, o2)))
        elif o1[0] == "ok":
            if not A.same(A.norm(o1[1]), A.norm(o2[1])):
                found.append(("second-run-differs", "first await returned %r, second await returned %r" % (A.norm(o1[1]), A.norm(o2[1]))))
        elif type(o1[1]) is not type(o2[1]) or A.norm(o1[1].args) != A.norm(o2[1].args):
            found.append(("second-run-differs", "first await raised %r, second await raised %r" % (o1[1], o2[1])))
        p1, p2 = A.strip_flags(ra.log, 1), A.strip_flags(ra.log2, 1)
        if p1 != p2:
            for tid in sorted(set(p1) | set(p2)):
                if p1.get(tid) != p2.get(tid):
                    found.append(("second-run-differs", "body of task %d behaves differently in the second await: first %r, second %r"
                                  % (tid, p1.get(tid), p2.get(tid))))
                    break
        for ev in ra.log2:
            if ev[1] not in nat and not ev[-1]:
                found.append(("mode-flag-off-inside", "is_asyncio_mode() is False inside the body of task %d during the second "
                              "await (%r)" % (ev[1], ev[:-1])))
                break
    if not all(ra.const_flags):
        found.append(("mode-flag-off-inside", "is_asyncio_mode() is False inside a non-generator @asynq() method run via .asyncio()"))
    if any(rs.flags_outer) or any(rs.const_flags) or any(ev[-1] for ev in rs.log):
        found.append(("mode-flag-on-in-sync", "is_asyncio_mode() is True during/after fn(code) on the asynq scheduler"))
    first = {}
    for ev in ra.log:
        tid = ev[1]
        if tid in nat:
            f0 = first.setdefault(tid, ev[-1])
            if ev[-1] != f0:
                found.append(("mode-flag-leak", "inside a hand-written asyncio_fn (task %d) is_asyncio_mode() changed from %r to %r "
                              "across an await (%r)" % (tid, f0, ev[-1], ev[:-1])))
                break
        elif not ev[-1]:
            found.append(("mode-flag-off-inside", "is_asyncio_mode() is False inside the body of task %d run via .asyncio() (%r)"
                          % (tid, ev[:-1])))
            break
    if any(ev[0] == "c" for ev in ra.log):
        cnt["executions_with_caught_failure"] = cnt.get("executions_with_caught_failure", 0) + 1
    if nat:
        cnt["executions_with_native_asyncio_fn_bodies"] = cnt.get("executions_with_native_asyncio_fn_bodies", 0) + 1
    if failed:
        cnt["asyncio_executions_raising"] = cnt.get("asyncio_executions_raising", 0) + 1
    if found:
        feats = sorted(prog.features) + ["style:" + STYLE_NAMES[style], "aiofn:%d" % aio,
                                         "outcome:" + ("raise" if failed else "return")]
        if xv:
            feats.append("values:exception-objects")
        if style == 3:
            if any(tid % 4 == 3 for tid in st_s | st_a):
                feats.append("route:async_call")
            if any(tid % 4 == 3 for tid in ref.sync_callees):
                feats.append("route:async_call-sync-call")
        seen = set()
        for sig, msg in found:
            if sig in seen:
                continue
            seen.add(sig)
            cnt["viol:" + sig] = cnt.get("viol:" + sig, 0) + 1
            if len(out["violations"]) < MAX_VIOL_PER_JOB:
                out["violations"].append({"sig": sig, "msg": msg, "features": feats,
                                          "case": {"prog": prog.term, "style": style, "aio": aio, "xv": xv, "phase2": bool(phase2),
                                                   "family": "main"}})
    return 3 if phase2 else 2


MAX_VIOL_PER_JOB = 40


def _new_out():
    return {"evals": 0, "states": 0, "transitions": 0, "nontrivial": 0, "violations": [], "samples": [], "counters": {}}


def run(job, env):
    from .. import progx
    hb = env["hb"]
    out = _new_out()
    cnt = out["counters"]
    info = job["family"] == "info"
    phase2 = bool(job.get("phase2"))
    min_nd = job.get("min_nd", 0)
    idx = 0
    for base in job["bases"]:
        base = progx._tuplify(base)
        for term, nd, is_tail in family(base, job["menu"], job["k"], tails=bool(job.get("tail_cfgs"))):
            idx += 1
            hb[0] = time.time()
            hb[2] = idx
            if nd < min_nd:
                continue
            prog = P.compile_prog(term)
            if info:
                if nd:
                    _info_case(prog, out)
                continue
            ref = Ref(prog)
            cnt["programs"] = cnt.get("programs", 0) + 1
            if is_tail:
                cnt["programs_after_catch_variants"] = cnt.get("programs_after_catch_variants", 0) + 1
            else:
                cnt["programs_dev%d" % nd] = cnt.get("programs_dev%d" % nd, 0) + 1
            if ref.nontrivial:
                out["nontrivial"] += 1
            for style, aio, xv in (job["tail_cfgs"] if is_tail else job["cfgs"]):
                if ref.has_sync and aio:
                    cnt["skipped_sync_call_with_explicit_asyncio_fn"] = cnt.get("skipped_sync_call_with_explicit_asyncio_fn", 0) + 1
                    continue
                out["evals"] += judge(ref, style, aio, xv, out, phase2 and [style, aio, xv] in PHASE2_CFGS)
                out["states"] += 1
                if xv:
                    cnt["states_with_exception_objects_as_values"] = cnt.get("states_with_exception_objects_as_values", 0) + 1
            if len(out["samples"]) < 1 and ref.nontrivial and nd == job["k"]:
                out["samples"].append({"program": term, "deviations": nd, "reference": repr(ref.exp_a)})
    return out


# --------------------------------------------------------------------------------------------------
# informational family: result(), ErrorFuture, lazily computed Future (outside the stated alphabet)


def _info_case(prog, out):
    from .. import aio as A
    cnt = out["counters"]
    _, exp = P.r1_eval(prog)
    try:
        rs, outs = A.run_sync(prog, 0, 0)
        ra, outa, problems = A.run_aio(prog, 0, 0)
    except Exception as e:  # never a violation
        cnt["info:harness-exception"] = cnt.get("info:harness-exception", 0) + 1
        return
    out["evals"] += 2
    ts = A.outcome_token(outs)
    ta = A.outcome_token(outa) if outa is not None else None
    agree = ta is not None and ts[0] == ta[0] and (A.same(ts[1], ta[1]) if ts[0] == "ok" else ts[1] == ta[1])
    for f in sorted(prog.features):
        if f in ("res", "leaf:ef", "lazy:ok", "lazy:raise"):
            key = "info:%s:%s" % (f, "asyncio-agrees-with-scheduler" if agree else "asyncio-differs-from-scheduler")
            cnt[key] = cnt.get(key, 0) + 1
            if not agree:
                key2 = "info:%s:asyncio-gives:%s" % (f, ta[1] if ta is not None and ta[0] == "err" else "other-value")
                cnt[key2] = cnt.get(key2, 0) + 1
    if problems:
        cnt["info:loop-anomaly"] = cnt.get("info:loop-anomaly", 0) + 1


def replay(case, env):
    from .. import progx
    term = progx._tuplify(case["prog"])
    prog = P.compile_prog(term)
    out = _new_out()
    ref = Ref(prog)
    judge(ref, case["style"], case["aio"], case.get("xv", 0), out, bool(case.get("phase2")))
    return out["violations"]


def finish(acc, tier):
    return {"bounds": {"after-catch variants": {"on rungs with deviations ==": TAIL_K, "tails": [list(t) for t in TAILS],
                                                "configurations size<=3": TAIL_CFGS_SMALL, "configurations larger": TAIL_CFGS_LARGE},
                       "second phase (fresh watcher + second await)": {"rungs with deviations <=": PHASE2_MAX_K, "configurations": PHASE2_CFGS},
                       "ladder (size<=n, deviations<=k, menu, [style, asyncio_fn mode, exception-valued variant])": LADDER[tier],
                       "styles": list(STYLE_NAMES), "asyncio_fn modes": ["none", "even task ids explicit", "odd task ids explicit"],
                       "informational family (size<=n, deviations<=k, menu)": list(INFO_LADDER[tier]) + [INFO_MENU]},
            "technique": TECHNIQUE, "engine": ENGINE}
