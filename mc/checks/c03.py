"""C03 - a task resumes exactly once per yield, only when all it awaits is done"""
from .. import gen, progx

ID = "C03"
BUILDS = ("pure", "compiled")
RULE = "every base program up to size n with every placement of <=k deviations (shared tasks awaited by several parents, re-yielded computed futures, empty structures, None, created-but-never-yielded items/tasks, try/raise, tuple/dict/nested shapes), every flush schedule, both builds; plus deep chains/combs (see coverage.depths); non-trivial = program with a >=2-way flush decision"
EXPLANATION = "stateless DFS over every flush schedule of every program on the real scheduler (both builds); each execution checked by online monitors and lock-step reference models (R1 sequential evaluator, R2 maximal-batching machine, R3 context model)"
ASSUMPTIONS = [
    "values are opaque tokens; task bodies have no side effects besides the harness record",
    "exhaustive only within the alphabet and bounds listed in coverage.bounds",
]
MENU = ["leaf:sh", "leaf:re", "ins:yempty", "ins:ynone", "ins:mkitem", "ins:mkchild", "wrap:try", "ins:raise", "item:err", "shape:T", "shape:D", "shape:nest", "leaf:n"]
CATS = ["resumed-uncomputed", "step-count", "step-after-computed", "task-computed-twice", "task-not-computed", "start-order", "started-extra", "started-missing", "scheduler-residue", "hang", "worker-died", "r2-started"]
LADDER = {"quick": [(5, 0, ["call"]), (4, 1, ["call"]), (3, 2, ["call"])], "thorough": [(6, 0, ["call"]), (5, 1, ["call"]), (4, 2, ["call"]), (2, 3, ["call"])]}
SPEC = {"r1": True, "r2": True}


def jobs(tier, seed):
    return progx.ladder_jobs(LADDER[tier], MENU, CATS, SPEC)


worker_init = progx.worker_init


def run(job, env):
    return progx.run_spec(job, env)


def replay(case, env):
    return progx.replay_case(case, env)


def finish(acc, tier):
    return {"bounds": {"ladder (size<=n, deviations<=k, conventions)": LADDER[tier], "menu": MENU, "categories judged": CATS}}
