"""C03 - a task resumes exactly once per yield, only when all it awaits is done"""
from .. import gen, progx

ID = "C03"
BUILDS = ("pure", "compiled")
RULE = "every base program up to size n with every placement of <=k deviations (shared tasks awaited by several parents, re-yielded computed futures, empty structures, None, created-but-never-yielded items/tasks, synchronous re-entry (nested call / item.value()), try/raise, tuple/dict/nested shapes), every flush schedule, both builds; plus deep chains/combs (see coverage.depths); non-trivial = program with a >=2-way flush decision"
EXPLANATION = "stateless DFS over every flush schedule of every program on the real scheduler (both builds); each execution checked by online monitors and lock-step reference models (R1 sequential evaluator, R2 maximal-batching machine, R3 context model)"
ASSUMPTIONS = [
    "values are opaque tokens; task bodies have no side effects besides the harness record",
    "exhaustive only within the alphabet and bounds listed in coverage.bounds",
]
MENU = ["flush:raiseB", "leaf:lzok", "leaf:cw", "ins:sync", "ins:iv", "leaf:sh", "leaf:re", "ins:yempty", "ins:ynone", "ins:mkitem", "ins:mkchild", "wrap:try", "ins:raise", "item:err", "item:unset", "shape:T", "shape:D", "shape:nest", "leaf:n"]
CATS = ["resumed-uncomputed", "step-count", "step-after-computed", "task-computed-twice", "task-not-computed", "awaited-not-computed", "start-order", "started-extra", "started-missing", "scheduler-residue", "provider-ran-twice", "hang", "worker-died", "r2-started", "r2-batch", "r2-flush-count", "r2-diverge"]
_MENU42 = {"menu": ["ins:sync", "ins:iv", "leaf:sh", "leaf:re", "ins:mkchild", "wrap:try", "ins:raise", "item:err"]}
LADDER = {"quick": [(5, 0, ["call"]), (4, 1, ["call"]), (3, 2, ["call"])],
          "thorough": [(6, 0, ["call"]), (5, 1, ["call"]), (4, 2, ["call"], _MENU42), (3, 2, ["call"]), (2, 3, ["call"])]}
SPEC = {"r1": True, "r2": True}


DEPTHS = {"quick": list(range(0, 65)) + [999, 1000, 1001, 10 ** 4, 5 * 10 ** 4],
          "thorough": list(range(0, 65)) + [999, 1000, 1001, 10 ** 4, 5 * 10 ** 4, 10 ** 5, 2 * 10 ** 5]}
CATS = CATS + ["deep-recursion", "deep-failed", "deep-value", "deep-flushes"]


# hand-written multi-stage programs: several "idle passes" (a pass of the wait loop that ends with the root blocked and
# nothing to flush, because a sibling flushed the batch out of band) within ONE computation
def _t(*st):
    return ("t", tuple(st))


_IA, _IB = gen.IA, gen.IB
STAGED = [
    ("P", _t(*[("y", ("L", (("c", _t(("y", _IA))), ("c", _t(("iv", "a"))))))] * n), (), ()) for n in (2, 3, 4)
] + [
    ("P", _t(("y", ("L", (("c", _t(("y", _IA))), ("c", _t(("iv", "a")))))),
             ("y", ("L", (("c", _t(("y", _IB))), ("c", _t(("sync", _t(("y", _IB)), "call"))))))), (), ()),
    ("P", _t(("y", ("L", (("c", _t(("y", _IA), ("y", _IA))), ("c", _t(("y", _IA), ("iv", "a"))), ("c", _t(("iv", "a"))))))), (), ()),
]


def jobs(tier, seed):
    j = {"bases": STAGED, "menu": [], "k": 0, "convs": ["call", "av"], "cats": CATS}
    j.update(SPEC)
    yield j
    # width: one yield of n futures (list and tuple), around the 16-bit and beyond
    for shape in ("fan-list", "fan-tuple"):
        for n in (70000, 65537, 65536, 32769, 32768, 32767, 1000, 3, 0):
            yield {"deep": [[shape, n]]}
    big = [d for d in DEPTHS[tier] if d > 64]
    for shape in ("chain", "chain-every", "comb"):
        for d in sorted(big, reverse=True):
            if shape == "chain-every" and d > 2000:
                continue  # one flush per level and one full walk per flush: quadratic by design
            yield {"deep": [[shape, d]]}
        yield {"deep": [[shape, d] for d in DEPTHS[tier] if d <= 64]}
    for j in progx.ladder_jobs(LADDER[tier], MENU, CATS, SPEC):
        yield j
    # shape family: one task yielding one structure of every shape (depth 2, arity <= 3) over futures that need a
    # flush, child tasks and constants: the task must not be resumed before every future in the structure is computed
    leaves = (gen.IA, ("c", ("t", (("y", gen.IB),))), gen.K)
    m = 48 if tier == "quick" else 96
    for i in range(m):
        j = {"shape_slice": [i, m, tier], "shape_leaves": leaves, "menu": [], "k": 0, "convs": ["call"], "cats": CATS}
        j.update(SPEC)
        yield j


worker_init = progx.worker_init


def run(job, env):
    if "deep" in job:
        import time
        from .. import deep
        out = {"evals": 0, "states": 0, "transitions": 0, "nontrivial": 0, "violations": [], "counters": {}}
        for shape, d in job["deep"]:
            env["hb"][0] = time.time()
            vs = deep.run_deep(shape, d)
            out["evals"] += 1
            out["states"] += d + 1
            out["transitions"] += 2 * (d + 1)
            out["counters"]["deep_runs"] = out["counters"].get("deep_runs", 0) + 1
            out["counters"]["max_depth"] = 0
            for cat, msg in vs:
                out["violations"].append({"sig": cat, "msg": msg, "features": ["deep", shape], "case": {"deep": [[shape, d]]}})
        return out
    return progx.run_spec(job, env)


def replay(case, env):
    if "deep" in case:
        from .. import deep
        return [{"sig": c, "msg": m} for shape, d in case["deep"] for c, m in deep.run_deep(shape, d)]
    return progx.replay_case(case, env)


def finish(acc, tier):
    return {"bounds": {"ladder (size<=n, deviations<=k, conventions)": LADDER[tier], "menu": MENU, "categories judged": CATS,
                       "depths (chain, chain-every, comb)": DEPTHS[tier],
                       "widths (one yield of n tasks, list and tuple)": [0, 3, 1000, 32767, 32768, 32769, 65536, 65537, 70000]}}
