"""C04 - batches are flushed only when nothing else can run (maximal batching)"""
from .. import gen, progx

ID = "C04"
BUILDS = ("pure", "compiled")
RULE = "every yield-only base program up to size n with every placement of <=k deviations (shared tasks, try/raise, item errors/unset, failing flush, AsyncContext/NonAsyncContext, third batch kind, items created in one step and yielded later, shapes), every flush schedule over 2-3 kinds, both builds; at every flush the real batch contents and pending kinds are compared with the maximal-batching machine R2, and single-kind programs against the critical-path length; non-trivial = program with a >=2-way flush decision"
EXPLANATION = "stateless DFS over every flush schedule of every program on the real scheduler (both builds); each execution checked by online monitors and lock-step reference models (R1 sequential evaluator, R2 maximal-batching machine, R3 context model)"
ASSUMPTIONS = [
    "values are opaque tokens; task bodies have no side effects besides the harness record",
    "exhaustive only within the alphabet and bounds listed in coverage.bounds",
]
MENU = ["leaf:cw", "leaf:sh", "wrap:try", "ins:raise", "item:err", "item:unset", "flush:raise", "wrap:A", "wrap:N", "item:c", "ins:mkitem", "leaf:re", "shape:T", "shape:D", "shape:nest"]
CATS = ["r2-batch", "r2-flush-count", "r2-menu", "r2-diverge", "r2-outcome", "crit-count", "hang", "worker-died"]
_KD = {"opts": {"options": {"KEEP_DEPENDENCIES": True}}}  # maximal batching must not depend on a debug option
LADDER = {"quick": [(5, 0, ["call"]), (4, 1, ["call"]), (3, 2, ["call"]), (4, 0, ["call"], _KD), (3, 1, ["call"], _KD)], "thorough": [(6, 0, ["call"]), (5, 1, ["call"]), (4, 2, ["call"]), (2, 3, ["call"]), (5, 0, ["call"], _KD), (4, 1, ["call"], _KD)]}
SPEC = {"r1": True, "r2": True}


def jobs(tier, seed):
    return progx.ladder_jobs(LADDER[tier], MENU, CATS, SPEC)


worker_init = progx.worker_init


def run(job, env):
    return progx.run_spec(job, env)


def replay(case, env):
    return progx.replay_case(case, env)


def finish(acc, tier):
    return {"bounds": {"ladder (size<=n, deviations<=k, conventions)": LADDER[tier], "menu": MENU, "categories judged": CATS}}
