"""C13 - async caches behave like their reference cache for every call history."""

ID = "C13"
ENGINE = "HISTX"
BUILDS = ("pure", "compiled")  # asynq/tools.py itself is plain Python in both; the scheduler/decorators under it differ
RULE = ("breadth-first search over ALL operation histories up to the length bound, per configuration, on the real decorators: "
        "alru_cache (maxsize 1..3; default key, a normalising key_fn and a key_fn that ignores one parameter; on the module-level "
        "function f(a, b=2, *, c=0) and on the method m(self, a, b=2) of a class with 2 instances), acached_per_instance "
        "(methods m(self, a, b=2) and n(self, a, *, c=0), in the thorough tier also p(self, a, b=2, *, c=0); 2 instances, "
        "`del instance; gc.collect()` as an operation, the next call on the slot creates a new instance), alazy_constant (ttl 0 and 5 under a scripted clock with operations clock += 0/4/6, "
        "dirty(), and 'the next body run raises'; the clock starts at 1000000 and, as a recently started monotonic microsecond "
        "clock would, at 1 and at ttl-1). PAIR configurations: ONE decorator object (the result of alru_cache(maxsize[, key_fn]) "
        "with default key and normalising key_fn / acached_per_instance() / alazy_constant(ttl)) is applied to TWO functions or "
        "methods (f,g / m,k / z,y) whose calls (reduced spelling menu x(a), x(a, b=1), x(a=a)) are interleaved in the histories, "
        "the reference keeping one independent cache per decorated function. VAR-KEYWORD signature classes (default key): "
        "alru_cache on v(a, b=0, **opts) (maxsize 1..3) and r(a, *rest, **opts) (maxsize 2), acached_per_instance on "
        "w(self, a, b=0, **opts), with spellings all-named-positional, all-named-positional + extra keyword x=1 / x=2, "
        "defaulted b + extra keyword, keyword b + extra keyword, keyword a + extra keyword, extra positionals; the reference "
        "key is the full normalised argument mapping, extra keywords and extra positionals included. OVERLAPPING calls are operations too: "
        "'together[X | Y]' = one @asynq driver task yields [fn.asynq(X), fn.asynq(Y)] with the blocking body kind, so both calls "
        "are in flight across the same batch flush (same key same/other spelling, different keys, with a raising twin, the two "
        "instances, the two functions of a pair; for alazy_constant z|z and z|y) on fresh and warm caches; and 'X, whose body "
        "synchronously calls Y' (re-entrant body, both body kinds, another key / the other function of a pair). Reference for "
        "overlapping calls: both look up before either stores; two misses of one key may run the body once or twice; every value "
        "computed is stored (LRU: any order of the two look-ups and the two stores, the reference adopts the permitted order the "
        "real cache shows) and later calls must hit it. One operation = one call through fn(...) or fn.asynq(...).value() with "
        "a in {1,2}, b in {omitted, =default, other}, keyword-only c in {omitted, other} in every positional/keyword/mixed "
        "spelling (32 spellings of f, 16 of m, 12 of n), body returning at once or blocking on a harness batch item first "
        "(configuration), designated arguments (a=2 with b=1 resp. c=1) make the body raise. Every history is executed on fresh real "
        "objects in lock step with a plain reference cache (OrderedDict LRU / dict per instance / (value, refresh time) cell); "
        "histories are de-duplicated by canonical state = (reference state, real cache content read from the closure / "
        "__acached_per_instance_cache__ / wrapper attributes, body-run log length); a violating transition is reported and not "
        "extended. non-trivial = canonical states with at least one cached entry")
EXPLANATION = ("explicit-state BFS over call histories on the real cache decorators vs a reference cache keyed on the "
               "interpreter-bound normalised arguments (inspect.signature) or on key_fn's result")
ASSUMPTIONS = [
    "one call at a time: no two calls of the cached function are in flight together (concurrent misses are C12's subject)",
    "the scripted clock (asynq.tools.utime rebound) is constant during a call and advances only by the explicit operation; "
    "steps +4/+6 around ttl=5 avoid the boundary age == ttl, which the statement does not decide",
    "alru/per-instance bodies return a value determined by their arguments (no run serial), so a stale hit is told from a "
    "recomputation by the body-run log, not by the value; alazy_constant values carry the run serial",
    "on a method the instance is one of the parameters (two instances never share an entry)",
    "overlapping calls: the statement promises no single-flight, so one or two body runs are accepted for two overlapping misses "
    "of one key, and the recency order / which of two equal-key values is kept is left open (resolved by observing the real "
    "cache, or by the next hit for alazy_constant); everything after that is judged against the adopted reference state",
    "extra keyword / extra positional values are small ints; a positional *rest element that itself is a pair ('x', 1) is outside "
    "the alphabet (qcore.get_args_tuple flattens extra keywords to (name, value) pairs appended to the key tuple, so on the "
    "unchanged library r(1, ('x', 1)) is served the entry of r(1, x=1))",
    "at most two calls overlap, issued from one driver task; the shared-decorator per-instance configuration uses the "
    "synchronous calling form only",
]
TECHNIQUE = "explicit-state BFS over operation histories on the real objects vs reference state machine"

DEPTH = {"quick": {"alru": 4, "acpi": 4, "alazy": 7, "alru-pair": 4, "acpi-pair": 4, "alazy-pair": 6},
         "thorough": {"alru": 6, "acpi": 6, "acpi-abc": 5, "alazy": 10, "alru-pair": 6, "acpi-pair": 6, "alazy-pair": 9}}
CLOCK_STARTS = {0: (None, 1), 5: (None, 1, 4)}  # None = the large default start (1000000); small: 1 and ttl-1


def depth_key(c):
    if c["fam"] == "acpi" and c.get("sig") == "abc":
        return "acpi-abc"
    return c["fam"] + ("-pair" if c.get("pair") else "")


def configs(tier="quick"):
    """simplest first"""
    out = []
    for ttl in (0, 5):
        for start in CLOCK_STARTS[ttl]:
            for body in ("imm", "block"):
                c = {"fam": "alazy", "ttl": ttl, "body": body}
                if start is not None:
                    c["start"] = start
                out.append(c)
    for ttl in (0, 5):
        for body in ("imm", "block"):
            out.append({"fam": "alazy", "ttl": ttl, "body": body, "pair": True})
    for sig in ("ab", "ac") + (("abc",) if tier == "thorough" else ()):
        for body in ("imm", "block"):
            out.append({"fam": "acpi", "sig": sig, "body": body})
    for maxsize in (1, 2, 3):
        for key in ("default", "norm", "coarse"):
            for target in ("function", "method"):
                for body in ("imm", "block"):
                    out.append({"fam": "alru", "target": target, "maxsize": maxsize, "key": key, "body": body})
    # one decorator object applied to two functions / methods
    for maxsize in (1, 2, 3):
        for key in ("default", "norm"):
            for target in ("function", "method"):
                for body in ("imm", "block"):
                    out.append({"fam": "alru", "target": target, "maxsize": maxsize, "key": key, "body": body, "pair": True})
    for body in ("imm", "block"):
        out.append({"fam": "acpi", "sig": "ab", "body": body, "pair": True})
    # var-keyword signature classes (default key only): v(a, b=0, **opts), r(a, *rest, **opts), method w(self, a, b=0, **opts)
    for maxsize in (1, 2, 3):
        for body in ("imm", "block"):
            out.append({"fam": "alru", "target": "function", "sig": "v", "maxsize": maxsize, "key": "default", "body": body})
    for body in ("imm", "block"):
        out.append({"fam": "alru", "target": "function", "sig": "r", "maxsize": 2, "key": "default", "body": body})
    for body in ("imm", "block"):
        out.append({"fam": "acpi", "sig": "abk", "body": body})
    return out


def jobs(tier, seed):
    cfgs = configs(tier)
    # the runner hands jobs to workers in order: big configurations first keeps the tail short; the enumeration
    # inside each configuration is simplest-first (BFS by history length)
    def cost(c):
        if c["fam"] == "alazy":
            return 5 if c.get("pair") else 0
        if c.get("pair"):
            return 500 + (c["body"] == "block") if c["fam"] == "acpi" else 6 + c["maxsize"]
        if c["fam"] == "acpi":
            return 30 + {"abc": 1000, "ab": 1, "ac": 0, "abk": 0}[c["sig"]] + (c["body"] == "block")
        if c.get("sig"):
            return 8 + c["maxsize"]
        # default-key configurations are by far the largest while the known key defect multiplies the real cache states
        return (10 * c["maxsize"] + {"default": 100, "norm": 2, "coarse": 0}[c["key"]] * (c["maxsize"] - 1)
                + 3 * (c["target"] == "function") + (c["body"] == "block"))

    order = sorted(range(len(cfgs)), key=lambda i: (-cost(cfgs[i]), i))
    for i in order:
        c = cfgs[i]
        yield {"cfg": c, "depth": DEPTH[tier][depth_key(c)]}


def worker_init(env):
    from .. import progx
    progx.worker_init(env)


def run(job, env):
    from .. import histx_caches as H
    return H.explore(job["cfg"], job["depth"], env)


def replay(case, env):
    from .. import histx_caches as H
    return H.replay(case)


def finish(acc, tier):
    return {"bounds": {"history length": DEPTH[tier], "configurations": len(configs(tier)),
                       "alru": "maxsize 1-3 x key {default, norm key_fn, coarse key_fn} x {function, method} x body {imm, block}",
                       "acpi": "signature {m(self,a,b=2), n(self,a,*,c=0)%s} x body {imm, block}, 2 instance slots"
                               % (", p(self,a,b=2,*,c=0)" if tier == "thorough" else ""),
                       "var-keyword classes": "alru v(a,b=0,**opts) maxsize 1-3, r(a,*rest,**opts) maxsize 2, acpi w(self,a,b=0,**opts); "
                       "default key, body {imm, block}; 8 spellings per value of a (calls only, no together/re-entry operations)",
                       "alazy": "ttl {0,5} x body {imm, block} x clock start {1000000, 1, ttl-1}, clock steps {0,4,6}",
                       "pairs (one decorator object on two functions)": "alru maxsize 1-3 x key {default, norm key_fn} x {f+g, "
                       "methods m+k of one instance} x body; acpi methods m+k x 2 instances x body (menu x(1), x(1,b=1), x(a=1), x(2,b=1); synchronous form); alazy z+y x ttl {0,5} x body",
                       "overlapping / re-entrant operations": "together[X | Y] over the menu x(1), x(2), x(1,b=1), x(a=1), x(2,b=1)(raises): "
                       "pairs (x1,x1) (x1,x(a=1)) (x1,x2) (x1,x(1,b=1)) (x1,raising) per function and instance + 2 cross-instance pairs "
                       "(blocking body configurations); re-entry x1->x2, x1->x(1,b=1) per function and instance (all configurations); "
                       "pair configurations: f1|g1, f1|g2, f1|f2, f1->g1, g1->f2; alazy: z|z (and z|y, y|y in pair configurations)",
                       "calling forms": ["fn(...)", "fn.asynq(...).value()", "yield [fn.asynq(X), fn.asynq(Y)] from a driver task"]}}
