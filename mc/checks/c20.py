"""C20 - debug, dump and profiling options never change behaviour."""
import itertools

from .. import gen, progx
from .. import prog as P
from .. import explore as X

ID = "C20"
BUILDS = ("pure", "compiled")
RULE = ("every base program up to size n with every placement of <=k deviations (synchronous re-entry, raise/try, failing "
        "items and flushes, AsyncContext/NonAsyncContext/scoped override, probes, third kind, lazily computed futures), "
        "every flush schedule, both builds; each execution is repeated under every option subset of size <=1 (quick) / <=2 "
        "(thorough) of the 19 boolean debug options plus all-on and all-dumps-on, and under COLLECT_PERF_STATS with a "
        "scripted clock stepping 1us..24h per call; thorough also walks all 2^19 subsets on the feature-dense programs. "
        "Oracle: the observation (outcome, values, flush log with item ids, decisions, context events, probes, step counts) "
        "is identical to the one under default options; diagnostic streams are captured and ignored. "
        "non-trivial = (program, schedule, option set) triples whose option set is non-default")
EXPLANATION = "differential exploration: same program and schedule under every option configuration vs defaults, on the real scheduler"
ASSUMPTIONS = [
    "SCHEDULER_STATE_DUMP_INTERVAL is set to 0 together with DUMP_SCHEDULER_STATE so the time-gated dump code really runs",
    "the clock seen by the profiling code is the scripted utime(); time.time() only gates diagnostic output",
]
MENU = ["ins:sync", "ins:raise", "wrap:try", "item:err", "item:unset", "flush:raise", "wrap:A", "wrap:N", "wrap:S0",
        "ins:probe", "item:c", "leaf:lzok", "leaf:lzraise", "leaf:sh", "ins:res", "ins:iv", "leaf:bt", "leaf:cu"]
CATS = ["option-changes-behaviour", "hang", "worker-died"]
LADDER = {"quick": [(4, 0, ["call"]), (3, 1, ["call"])],
          "thorough": [(5, 0, ["call"], {"pairs": False}), (4, 1, ["call"], {"pairs": False}), (3, 1, ["call"])]}
OPTS = P.OPTION_NAMES
CLOCK_STEPS = [1, 1000, 10 ** 6, 2 ** 31 - 1, 2 ** 31, 3600 * 10 ** 6, 86400 * 10 ** 6]

IA, IB = gen.IA, gen.IB


def _t(*st):
    return ("t", tuple(st))


def _y(s):
    return ("y", s)


def _L(*x):
    return ("L", tuple(x))


def _c(*st):
    return ("c", _t(*st))


DENSE = [
    ("P", _t(("with", "S0", (_y(_L(_c(("with", "A", (_y(IA), ("probe",))), _y(IB)),
                                   _c(("probe",), ("sync", _t(_y(IB)), "call"), _y(IA)))),)),
             ("try", (_y(("T", (("i", "a", "err"), _c(_y(IB)), ("k",)))),), (_y(IA),))), (), ()),
    ("P", _t(_y(("D", (("x", _c(("with", "N", (_y(IA),)))), ("y", _c(_y(IB), ("raise",))), ("z", ("lz", "ok")))))), (), ()),
    ("P", _t(_y(_L(("sh", 0), _c(_y(("sh", 0)), _y(("i", "c", "ok"))), IB)), ("res",)), (_t(_y(IA), _y(IB)),), ()),
    ("P", _t(("try", (_y(_L(IA, _c(_y(IB), _y(("i", "a", "unset"))))),), (("probe",),)), ("iv", "b")), (), (("a", "setraise"),)),
    ("P", _t(("mk", IA), _y(_L(_c(("sync", _t(("sync", _t(_y(IA)), "av"), _y(IB)), "call")), ("re", 0))), _y(("n",))), (), (("b", "new"),)),
    ("P", _t(("with", "P0", (_y(("T", (_c(("with", "S1", (_y(IB), ("probe",)))), _c(_y(IA), ("probe",), _y(IA))))),)), ("probe",)), (), ()),
    # a task that yields a batch object itself (as a barrier) next to tasks blocked on that batch
    ("P", _t(_y(_L(_c(_y(IA), _y(IB)), _c(_y(_L(IA, ("bt", "a"))), _y(("bt", "b"))), IB))), (), ()),
    # the library's own DebugBatch/DebugBatchItem (cdef classes without __dict__ in the compiled build) next to a harness kind
    ("P", _t(_y(_L(_c(_y(("dbi", "x")), _y(IA)), _c(_y(_L(("dbi", "x"), ("dbi", "x")))), ("dbi", "x"))), _y(("dbi", "x"))), (), ()),
    # tasks called with an argument whose repr() raises RuntimeError (every dump / profiler name has to cope), one of them failing
    ("P", _t(_y(_L(("cu", _t(_y(IA), _y(IB))), ("cu", _t(_y(IB), ("raise",))), IB)), ("try", (_y(("cu", _t(("raise",)))),), (_y(IA),))), (), ()),
]


def option_sets(pairs):
    from .. import world as Wd
    sets = []
    for o in OPTS:
        sets.append({o: not Wd._DEFAULTS[o]})
    if pairs:
        for a, b in itertools.combinations(OPTS, 2):
            sets.append({a: not Wd._DEFAULTS[a], b: not Wd._DEFAULTS[b]})
    allon = {o: True for o in OPTS}
    sets.append(allon)
    sets.append({o: True for o in OPTS if o.startswith("DUMP_")})
    sets.append({o: not Wd._DEFAULTS[o] for o in OPTS})
    return sets


def _with_interval(o):
    o = dict(o)
    if o.get("DUMP_SCHEDULER_STATE"):
        o["SCHEDULER_STATE_DUMP_INTERVAL"] = 0
    return o


def jobs(tier, seed):
    for j in progx.ladder_jobs(LADDER[tier], MENU, CATS, {"r1": False, "pairs": tier == "thorough"}):
        yield j
    if tier == "thorough":
        # all 2^19 subsets on the dense programs, split into 64 slices per program
        for pi in range(len(DENSE)):
            for sl in range(64):
                yield {"dense": pi, "slice": sl, "nslices": 64, "cats": CATS}
    else:
        for pi in range(len(DENSE)):
            yield {"bases": [DENSE[pi]], "menu": [], "k": 0, "convs": ["call", "av"], "cats": CATS, "r1": False, "pairs": True}


worker_init = progx.worker_init
_sets_cache = {}


def _variants_judge(prog, r, exp, r1, spec, conv, out):
    pairs = bool(spec.get("pairs"))
    sets = _sets_cache.get(pairs)
    if sets is None:
        sets = _sets_cache[pairs] = [_with_interval(o) for o in option_sets(pairs)]
    base = X.observation(r)
    runs = [(o, 1) for o in sets]
    for cs in CLOCK_STEPS:
        runs.append(({"COLLECT_PERF_STATS": True}, cs))
    runs.append(({o: True for o in OPTS}, 2 ** 31))
    for o, cs in runs:
        r2 = X.execute(prog, r.schedule, conv=conv, options=o, clock_step=cs)
        out["evals"] += 1
        out["nontrivial"] += 1
        ob = X.observation(r2)
        if ob != base:
            names = ("outcome", "flushes", "decisions", "contexts", "probes", "steps", "monitors")
            d = [(n, x, y) for n, x, y in zip(names, base, ob) if x != y]
            out["violations"].append({
                "sig": "option-changes-behaviour",
                "msg": "options %s (clock step %d us) change %s: default %r, with options %r"
                       % (sorted(k for k in o if k != "SCHEDULER_STATE_DUMP_INTERVAL"), cs, d[0][0], d[0][1], d[0][2]),
                "features": progx.feats(prog) + ["conv:" + conv] + ["opt:" + k for k in sorted(o)] + ["clock:%d" % cs],
                "case": {"prog": prog.term, "prefix": list(r.schedule), "conv": conv, "opts": {},
                         "spec": {"cats": spec["cats"], "r1": False, "pairs": pairs}},
            })
            if len(out["violations"]) > 20:
                return


def _dense_job(job, env):
    import time
    from .. import world as Wd
    hb = env["hb"]
    out = {"evals": 0, "states": 0, "transitions": 0, "nontrivial": 0, "violations": [], "samples": [], "counters": {}, "sets": {}}
    prog = P.compile_prog(DENSE[job["dense"]])
    base_r = X.execute(prog, ())
    base = X.observation(base_r)
    n = len(OPTS)
    total = 1 << n
    lo = total * job["slice"] // job["nslices"]
    hi = total * (job["slice"] + 1) // job["nslices"]
    for mask in range(lo, hi):
        if mask & 0xFF == 0:
            hb[0] = time.time()
            hb[2] = mask
        o = {OPTS[i]: (not Wd._DEFAULTS[OPTS[i]]) for i in range(n) if mask >> i & 1}
        o = _with_interval(o)
        r2 = X.execute(prog, (), options=o)
        out["evals"] += 1
        out["states"] += 1
        out["transitions"] += r2.transitions
        if X.observation(r2) != base:
            out["violations"].append({
                "sig": "option-changes-behaviour",
                "msg": "option subset %s changes the observation of dense program %d" % (sorted(o), job["dense"]),
                "features": progx.feats(prog) + ["opt:" + k for k in sorted(o)],
                "case": {"prog": prog.term, "prefix": [], "conv": "call", "opts": {"options": o},
                         "spec": {"cats": CATS, "r1": False, "pairs": False}},
            })
            if len(out["violations"]) > 5:
                break
    out["nontrivial"] = out["evals"]
    out["counters"]["dense_subsets"] = out["evals"]
    return out


def run(job, env):
    if "dense" in job:
        return _dense_job(job, env)
    return progx.run_spec(job, env, extra_judge=_variants_judge)


def replay(case, env):
    return progx.replay_case(case, env, extra_judge=_variants_judge)


def finish(acc, tier):
    return {"bounds": {"ladder": LADDER[tier], "menu": MENU, "option subsets": "size<=%d + all-on + all-dumps + all-flipped" % (2 if tier == "thorough" else 1),
                       "clock steps (us)": CLOCK_STEPS, "dense programs": len(DENSE),
                       "full 2^19 sweep": tier == "thorough"}}
