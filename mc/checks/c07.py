"""C07 - context activations nest; scoped overrides read and restore as in sync code"""
from .. import gen, progx

ID = "C07"
BUILDS = ("pure", "compiled")
RULE = "every base program up to size n with every placement of <=k deviations (AsyncScopedValue.override on two targets, async_override, plain AsyncContext, probes reading all targets at any position, raise / failing items, shared tasks, synchronous re-entry, try), every flush schedule, both builds; global LIFO monitor on every pause, reads compared with sequential evaluation, restoration checked after value() returns or raises; non-trivial = program with a >=2-way flush decision"
EXPLANATION = "stateless DFS over every flush schedule of every program on the real scheduler (both builds); each execution checked by online monitors and lock-step reference models (R1 sequential evaluator, R2 maximal-batching machine, R3 context model)"
ASSUMPTIONS = [
    "values are opaque tokens; task bodies have no side effects besides the harness record",
    "exhaustive only within the alphabet and bounds listed in coverage.bounds",
]
MENU = ["ins:caught", "wrap:S0", "wrap:S1", "wrap:P0", "wrap:A", "ins:probe", "ins:raise", "item:err", "leaf:sh", "ins:sync", "wrap:try"]
CATS = ["ctx-lifo", "probe-mismatch", "override-not-restored", "ctx-left-active", "hang", "worker-died"]
LADDER = {"quick": [(4, 1, ["call"]), (3, 2, ["call"])], "thorough": [(5, 1, ["call"]), (4, 2, ["call"]), (2, 3, ["call"])]}
SPEC = {"r1": True, "r2": False}


def _t(*st):
    return ("t", tuple(st))


def _y(s):
    return ("y", s)


_IA, _IB = gen.IA, gen.IB
_SHB = _t(("with", "S0", (_y(_IA), _y(_IA))))
# hand-written histories of activations that the ladder cannot reach: an override context OBJECT reused after it
# completed a block (R0), and one pending overriding task awaited by several tasks that hold different overrides
_P = ("probe",)


def _w(kind, *st):
    return ("with", kind, tuple(st))


def _c(*st):
    return ("c", _t(*st))


def _l(*x):
    return ("L", tuple(x))


_SH = ("sh", 0)
STAGED = [
    ("P", _t(_w("R0", _y(_IA), _P), _P, _w("S0", _P, _w("R0", _P, _y(_IA), _P), _P, _y(_IB), _P), _P, _y(_IA), _P), (), ()),
    ("P", _t(_w("S0", _w("R0", _y(_IA)), _P, _y(_IB), _w("R0", _P, _y(_IA)), _P, _y(_IB)), _P, _y(_IA)), (), ()),
    ("P", _t(_y(_l(_c(_w("R0", _y(_IA)), _P, _w("S0", _w("R0", _y(_IB)), _P, _y(_IA)), _P),
                   _c(_w("S0", _y(_IA), _w("R0", _y(_IB)), _P, _y(_IA)), _P)))), (), ()),
    ("P", _t(_y(_l(_c(_w("S0", _y(_SH), _P, _y(_IB), _P)),
                   _c(_w("S0", _y(_SH), _P, _y(_IB), _P)),
                   _c(_w("S0", _y(_IB), _P, _y(_SH), _P, _y(_IA)))))), (_SHB,), ()),
    ("P", _t(_w("S0", _y(_l(_c(_y(_SH), _P, _y(_IB)), _c(_w("S0", _y(_SH), _P), _P, _y(_IB)))), _P, _y(_IA)), _P), (_SHB,), ()),
]


def jobs(tier, seed):
    j = {"bases": STAGED, "menu": [], "k": 0, "convs": ["call", "av"], "cats": CATS}
    j.update(SPEC)
    yield j
    for j in progx.ladder_jobs(LADDER[tier], MENU, CATS, SPEC):
        yield j


worker_init = progx.worker_init


def run(job, env):
    return progx.run_spec(job, env)


def replay(case, env):
    return progx.replay_case(case, env)


def finish(acc, tier):
    return {"bounds": {"ladder (size<=n, deviations<=k, conventions)": LADDER[tier], "menu": MENU, "categories judged": CATS}}
