"""C07 - context activations nest; scoped overrides read and restore as in sync code"""
from .. import gen, progx

ID = "C07"
BUILDS = ("pure", "compiled")
RULE = "every base program up to size n with every placement of <=k deviations (AsyncScopedValue.override on two targets, async_override, plain AsyncContext, probes reading all targets at any position, raise / failing items, shared tasks, synchronous re-entry, try), every flush schedule, both builds; global LIFO monitor on every pause, reads compared with sequential evaluation, restoration checked after value() returns or raises; non-trivial = program with a >=2-way flush decision"
EXPLANATION = "stateless DFS over every flush schedule of every program on the real scheduler (both builds); each execution checked by online monitors and lock-step reference models (R1 sequential evaluator, R2 maximal-batching machine, R3 context model)"
ASSUMPTIONS = [
    "values are opaque tokens; task bodies have no side effects besides the harness record",
    "exhaustive only within the alphabet and bounds listed in coverage.bounds",
]
MENU = ["ins:caught", "wrap:S0", "wrap:S1", "wrap:P0", "wrap:A", "ins:probe", "ins:raise", "item:err", "leaf:sh", "ins:sync", "wrap:try"]
CATS = ["ctx-lifo", "probe-mismatch", "override-not-restored", "ctx-left-active", "hang", "worker-died"]
LADDER = {"quick": [(4, 1, ["call"]), (3, 2, ["call"])], "thorough": [(5, 1, ["call"]), (4, 2, ["call"]), (2, 3, ["call"])]}
SPEC = {"r1": True, "r2": False}


def jobs(tier, seed):
    return progx.ladder_jobs(LADDER[tier], MENU, CATS, SPEC)


worker_init = progx.worker_init


def run(job, env):
    return progx.run_spec(job, env)


def replay(case, env):
    return progx.replay_case(case, env)


def finish(acc, tier):
    return {"bounds": {"ladder (size<=n, deviations<=k, conventions)": LADDER[tier], "menu": MENU, "categories judged": CATS}}
