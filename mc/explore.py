"""Stateless DFS over flush schedules of one program on the real scheduler (worker side)."""
import gc

from . import prog as P
from . import world as Wd


class ExecResult(object):
    __slots__ = ("outcome", "viol", "flushes", "decisions", "ctx_log", "probes", "auto", "steps", "started",
                 "nsteps", "transitions", "unfinished", "computed", "schedule", "sink")


def execute(prog, prefix=(), **cfg):
    """One execution on a fresh world.  Returns ExecResult (all plain data)."""
    w = Wd.World(prog, prefix=prefix, **cfg)
    sink0 = Wd.SINK.n
    w.run()
    r = ExecResult()
    r.outcome = w.outcome
    r.viol = w.viol
    r.flushes = w.flushes
    r.decisions = w.decisions
    r.ctx_log = w.ctx_log
    r.probes = w.probes
    r.auto = w.auto
    r.steps = w.steps
    r.started = set(w.steps)
    r.nsteps = w.nsteps
    r.transitions = w.transitions
    r.computed = dict(w.computed)
    r.schedule = tuple(d[1] for d in w.decisions)
    r.sink = Wd.SINK.n - sink0
    unfinished = False
    for tid, t in w.tasks.items():
        if tid in w.steps and not t.is_computed():
            unfinished = True
            break
    r.unfinished = unfinished
    closing = bool(w.closing)
    w.dispose()
    del w
    if unfinished or closing:
        gc.collect()
    return r


def explore(prog, on_exec, max_execs=100000, **cfg):
    """Runs `prog` under every flush schedule (choice = which pending kind wins each scheduler
    flush).  Calls on_exec(result) for each execution.  Returns (executions, states, capped)."""
    stack = [()]
    n = 0
    states = 0
    capped = False
    while stack:
        prefix = stack.pop()
        r = execute(prog, prefix, **cfg)
        n += 1
        on_exec(r)
        dec = r.decisions
        # determinism of the replayed prefix: the winners must be the ones asked for
        for i in range(min(len(prefix), len(dec))):
            if prefix[i] is not None and prefix[i] in dec[i][0] and dec[i][1] != prefix[i]:
                r.viol.append(("steer-ignored", "decision %d: asked for %s among %s, scheduler flushed %s"
                               % (i, prefix[i], dec[i][0], dec[i][1])))
        states += 1 + max(0, len(dec) - len(prefix))
        for i in range(len(prefix), len(dec)):
            menu, chosen = dec[i]
            if len(menu) > 1:
                base = tuple(d[1] for d in dec[:i])
                for k in menu:
                    if k != chosen:
                        stack.append(base + (k,))
        if n >= max_execs:
            capped = bool(stack)
            break
    return n, states, capped


def observation(r):
    """what a program can observe of one execution (for differential oracles)"""
    return (repr(r.outcome), tuple(r.flushes), tuple(r.decisions), tuple(r.ctx_log),
            tuple(sorted(r.probes.items())) + tuple(sorted(r.auto.items())), tuple(sorted(r.steps.items())),
            tuple(sorted(set(c for c, m in r.viol))))


def run_history(comps, reset_between):
    """comps: list of (prog, prefix, cfg).  Runs them one after another on the same thread, the
    harness batch state carried over; the scheduler is reset before computation i>0 iff
    reset_between.  Returns list of ExecResult."""
    prev = None
    worlds = []
    out = []
    for i, (prog, prefix, cfg) in enumerate(comps):
        cfg = dict(cfg)
        if prev is not None:
            cfg["inherit"] = prev
            cfg["lid_base"] = 1000 * i
            cfg["keep_scheduler"] = not reset_between
        w = Wd.World(prog, prefix=prefix, **cfg)
        w.run()
        r = ExecResult()
        r.outcome = w.outcome
        r.viol = list(w.viol)
        r.flushes = w.flushes
        r.decisions = w.decisions
        r.ctx_log = w.ctx_log
        r.probes = w.probes
        r.auto = w.auto
        r.steps = w.steps
        r.started = set(w.steps)
        r.nsteps = w.nsteps
        r.transitions = w.transitions
        r.computed = dict(w.computed)
        r.schedule = tuple(d[1] for d in w.decisions)
        r.unfinished = any(tid in w.steps and not t.is_computed() for tid, t in w.tasks.items())
        r.sink = 0
        out.append(r)
        worlds.append(w)
        prev = w
    for w in worlds:
        w.dispose()
    del worlds, prev, w
    gc.collect()
    return out
