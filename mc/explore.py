"""Stateless DFS over flush schedules of one program on the real scheduler (worker side)."""
import gc

from . import prog as P
from . import world as Wd


class ExecResult(object):
    __slots__ = ("outcome", "viol", "flushes", "decisions", "ctx_log", "probes", "steps", "started",
                 "nsteps", "transitions", "unfinished", "computed", "schedule", "sink")


def execute(prog, prefix=(), **cfg):
    """One execution on a fresh world.  Returns ExecResult (all plain data)."""
    w = Wd.World(prog, prefix=prefix, **cfg)
    sink0 = Wd.SINK.n
    w.run()
    r = ExecResult()
    r.outcome = w.outcome
    r.viol = w.viol
    r.flushes = w.flushes
    r.decisions = w.decisions
    r.ctx_log = w.ctx_log
    r.probes = w.probes
    r.steps = w.steps
    r.started = set(w.steps)
    r.nsteps = w.nsteps
    r.transitions = w.transitions
    r.computed = dict(w.computed)
    r.schedule = tuple(d[1] for d in w.decisions)
    r.sink = Wd.SINK.n - sink0
    unfinished = False
    for tid, t in w.tasks.items():
        if tid in w.steps and not t.is_computed():
            unfinished = True
            break
    r.unfinished = unfinished
    w.dispose()
    if unfinished or w.closing:
        del w
        gc.collect()
    return r


def explore(prog, on_exec, max_execs=100000, **cfg):
    """Runs `prog` under every flush schedule (choice = which pending kind wins each scheduler
    flush).  Calls on_exec(result) for each execution.  Returns (executions, states, capped)."""
    stack = [()]
    n = 0
    states = 0
    capped = False
    while stack:
        prefix = stack.pop()
        r = execute(prog, prefix, **cfg)
        n += 1
        on_exec(r)
        dec = r.decisions
        # determinism of the replayed prefix: the winners must be the ones asked for
        for i in range(min(len(prefix), len(dec))):
            if prefix[i] is not None and prefix[i] in dec[i][0] and dec[i][1] != prefix[i]:
                r.viol.append(("steer-ignored", "decision %d: asked for %s among %s, scheduler flushed %s"
                               % (i, prefix[i], dec[i][0], dec[i][1])))
        states += 1 + max(0, len(dec) - len(prefix))
        for i in range(len(prefix), len(dec)):
            menu, chosen = dec[i]
            if len(menu) > 1:
                base = tuple(d[1] for d in dec[:i])
                for k in menu:
                    if k != chosen:
                        stack.append(base + (k,))
        if n >= max_execs:
            capped = bool(stack)
            break
    return n, states, capped
